"""C11 — space-filling-curve index algebra is a consistent model of the grid hierarchy.

Decided clauses (bijection / geometric containment / list = definition are value-level: not decided):
 1 encoder/decoder agreement: every site that builds or splits a relative-position code is reduced
   to (base, offset, digit order); all transfer sites agree on (7, 3, dimension 0 most significant),
   all neighbour sites on (3, 1, same order), decoders invert the encoders, the kernels' closed-form
   table indices use the same convention, the upper-half filter constant is floor(3^Dim/2)
 2 shift-width agreement: parent (>>), child (<<, +), child code (mask) and upper bound use the
   class's Dim in each ordering class, and no code outside the ordering classes / 3-D-only kernels
   shifts or masks an index by a literal dimension
"""
import os
import re

import tbf
import codec
from tbf import walk, kids, strip, AnalysisBroken

LEVEL = "other"
TECHNIQUE = "codec extraction ((base, offset, digit order) of every encoder/decoder, sympy expansion of closed forms) and shift-width agreement over the clang AST"

ORDERINGS = ["TbfMortonSpaceIndex", "TbfHilbertSpaceIndex"]
CONVENTION = {7: 3, 3: 1}
ORDER = "dim0-most-significant"


def codecs(facts, res):
    R = "C11.1.codec-agreement"
    per_class = {}
    n = 0
    for fn in facts.functions:
        if fn.get("inst"):
            continue
        for c in codec.find_codecs(facts, fn) + codec.closed_forms(facts, fn):
            if c["kind"] == "other":
                continue
            n += 1
            where = facts.loc(c["node"])
            key = "%s@%d" % (fn["qname"], c["node"]["l"][1])
            res.instance(R, key, where, "%s base %d offset %d %s" % (c["kind"], c["base"], c["offset"], c["order"]))
            per_class.setdefault(fn.get("cls") or fn["qname"], []).append(c)
            f = tbf.rel(facts.path_of(c["node"]))
            if c["base"] not in CONVENTION:
                res.violation(R, f, fn["qname"], key + ":base", c["node"]["l"][1], "relative-position code built in base %d; transfer codes use base 7, neighbour codes base 3" % c["base"])
                continue
            if c["offset"] != CONVENTION[c["base"]]:
                res.violation(R, f, fn["qname"], key + ":offset", c["node"]["l"][1],
                              "base-%d %s uses offset %d; every other site uses %d (codes would decode to a shifted relative position)" % (c["base"], c["kind"], c["offset"], CONVENTION[c["base"]]))
            if c["order"] != ORDER:
                res.violation(R, f, fn["qname"], key + ":order", c["node"]["l"][1],
                              "base-%d %s orders the digits '%s'; the convention shared by the tree, the decoders and the kernels is '%s'" % (c["base"], c["kind"], c["order"], ORDER))
    res.floor("C11.1", n, 21, "encoder/decoder sites")
    for cls in ORDERINGS:
        cs = per_class.get(cls, [])
        for base in (7, 3):
            enc = [c for c in cs if c["base"] == base and c["kind"] == "enc"]
            dec = [c for c in cs if c["base"] == base and c["kind"] == "dec"]
            res.instance(R + ".inverse", "%s base %d" % (cls, base), "src/spacial", "%d encoders, %d decoders" % (len(enc), len(dec)))
            if not enc or not dec:
                raise AnalysisBroken("%s: base-%d encoder/decoder pair not found" % (cls, base))
    # upper-half filter
    R2 = "C11.1.upper-half-constant"
    k = 0
    for cls in ORDERINGS:
        for fn in facts.methods_of(cls):
            if fn["name"] not in ("getNeighborListForIndex", "getNeighborListForBlock"):
                continue
            found = False
            for x in walk(tbf.body(fn)):
                if x.get("k") == "BinaryOperator" and x.get("op") == "||":
                    a, b = [strip(c) for c in kids(x)]
                    if "upperExclusion" in facts.ntext(a) and b.get("k") == "BinaryOperator":
                        found = True
                        k += 1
                        txt = facts.ntext(b)
                        lhs, rhs = [strip(c) for c in kids(b)]
                        ok = b.get("op") == "<" and re.match(r"^(TbfUtils::)?lipow\(3,Dim\)/2$", facts.ntext(lhs)) is not None and rhs.get("k") == "DeclRefExpr"
                        ok = ok or (b.get("op") == ">" and re.match(r"^(TbfUtils::)?lipow\(3,Dim\)/2$", facts.ntext(rhs)) is not None)
                        res.instance(R2, "%s::%s" % (cls, fn["name"]), facts.loc(b), txt)
                        if not ok:
                            res.violation(R2, tbf.rel(facts.path_of(b)), fn["qname"], "filter", b["l"][1],
                                          "upper-half filter is '%s'; it must keep exactly the codes above the self code floor(3^Dim/2) so that each adjacent pair is visited from one side" % txt)
            if not found:
                raise AnalysisBroken("%s::%s: upper-half filter not found" % (cls, fn["name"]))
    res.floor("C11.1.filter", k, 4, "upper-half filters")


def shifts_in(facts, fn):
    out = []
    for x in walk(tbf.body(fn)):
        if x.get("k") in ("BinaryOperator", "CompoundAssignOperator") and x.get("op") in ("<<", ">>", "<<=", ">>="):
            out.append((x, strip(kids(x)[1])))
    return out


def shift_width(facts, res):
    R = "C11.2.shift-width"
    for cls in ORDERINGS:
        for name in ("getParentIndex", "getChildIndexFromParent", "childPositionFromParent", "getUpperBound"):
            ms = [m for m in facts.methods_of(cls) if m["name"] == name]
            if len(ms) != 1:
                raise AnalysisBroken("%s::%s not found" % (cls, name))
            sh = shifts_in(facts, ms[0])
            if not sh:
                raise AnalysisBroken("%s::%s contains no shift" % (cls, name))
            widths = []
            for x, amt in sh:
                names = set(y.get("name") for y in walk(amt) if y.get("k") == "DeclRefExpr")
                lits = [y["val"] for y in walk(amt) if y.get("k") == "IntegerLiteral"]
                widths.append(facts.ntext(amt))
                if "Dim" not in names:
                    res.violation(R, tbf.rel(facts.path_of(x)), ms[0]["qname"], "%s@%d" % (name, x["l"][1]), x["l"][1],
                                  "shift amount '%s' does not use the class's Dim: parent/child algebra would use different widths" % facts.ntext(amt))
                elif any(v > 1 for v in lits):
                    res.violation(R, tbf.rel(facts.path_of(x)), ms[0]["qname"], "%s@%d" % (name, x["l"][1]), x["l"][1], "shift amount '%s' mixes Dim with a literal" % facts.ntext(amt))
            res.instance(R, "%s::%s" % (cls, name), facts.loc(ms[0]), "shift amounts %s" % widths)
        # child index = (parent << Dim) + code  and  code = low Dim bits
        m = [m for m in facts.methods_of(cls) if m["name"] == "getChildIndexFromParent"][0]
        t = facts.ntext(tbf.body(m))
        if not re.search(r"\(\w+<<Dim\)\+\w+", t):
            res.violation(R, tbf.rel(facts.path_of(m)), m["qname"], "child-form", m["l"][1], "child index is not (parent << Dim) + code: '%s'" % t)
        m = [m for m in facts.methods_of(cls) if m["name"] == "getParentIndex"][0]
        t = facts.ntext(tbf.body(m))
        if not re.search(r"return\w+>>Dim;", t):
            res.violation(R, tbf.rel(facts.path_of(m)), m["qname"], "parent-form", m["l"][1], "parent index is not index >> Dim: '%s'" % t)


def literal_dimension(facts, res, roots_only=None):
    """no shift / mask of an index by a literal dimension outside the ordering classes and the 3-D kernels"""
    R = "C11.2.literal-dimension"
    n = 0
    hits = 0
    for fn in facts.functions:
        if fn.get("inst"):
            continue
        p = tbf.rel(facts.path_of(fn))
        if roots_only is None and (p.startswith("src/kernels/") or fn.get("cls") in ORDERINGS or p.startswith("src/utils/tbfrandom")):
            continue
        for x in walk(tbf.body(fn)):
            if x.get("k") in ("BinaryOperator", "CompoundAssignOperator") and x.get("op") in ("<<", ">>", "<<=", ">>=", "&"):
                r = strip(kids(x)[1])
                l = strip(kids(x)[0])
                if l.get("k") in ("IntegerLiteral",) or "ostream" in l.get("t", "") or "Stream" in l.get("t", ""):
                    continue
                n += 1
                lit = r.get("val") if r.get("k") == "IntegerLiteral" else None
                bad = (x["op"] != "&" and lit in (2, 3, 4)) or (x["op"] == "&" and lit in (3, 7, 15))
                if bad and re.search(r"[Ii]ndex|[Ii]dx|spaceIndex", facts.ntext(l)):
                    hits += 1
                    res.violation(R, p, fn["qname"], "%s@%d" % (facts.ntext(x)[:40], x["l"][1]), x["l"][1],
                                  "index '%s' is shifted/masked by the literal %d: hard-codes a space dimension outside the ordering class" % (facts.ntext(l), lit))
    return n, hits


LIST_BUILDERS = ["getInteractionListForIndex", "getInteractionListForBlock", "getNeighborListForIndex", "getNeighborListForBlock", "getSelfListForBlock",
                 "getTreeCoordinate", "getNbInteractionsPerCell", "getNbNeighborsPerLeaf", "getNbChildrenPerCell", "getParentIndex", "getChildIndexFromParent", "childPositionFromParent"]
# what the per-cell and the per-group builders must share: neighbourhood limits, wrap shifts, too-close test, child loop, level guards
SHARED = ["Limits", "periodicShift", "isTooClose", "boxLimite", "getChildIndexFromParent", "inLevel", "std::abs", "IsPeriodic", "idxChild", "Pos[idxDim]"]


def sibling_builders(facts, res):
    """C11.3: the two ordering classes build their lists the same way (apart from the index conversions
    hidden in getIndexFromBoxPos / getBoxPosFromIndex), and in each class the per-cell and per-group
    builders use the same neighbourhood limits, periodic wrap shifts, too-close test and child loop"""
    import sibling
    R = "C11.3.sibling-builders"
    n = 0
    for name in LIST_BUILDERS:
        a = [m for m in facts.methods_of(ORDERINGS[0]) if m["name"] == name]
        b = [m for m in facts.methods_of(ORDERINGS[1]) if m["name"] == name]
        if len(a) != 1 or len(b) != 1:
            raise AnalysisBroken("list builder %s not found in both ordering classes" % name)
        sibling.compare(facts, res, R, a[0], b[0], what="ordering ")
        n += 1
    for cls in ORDERINGS:
        for x, y in (("getInteractionListForIndex", "getInteractionListForBlock"), ("getNeighborListForIndex", "getNeighborListForBlock")):
            fa = [m for m in facts.methods_of(cls) if m["name"] == x][0]
            fb = [m for m in facts.methods_of(cls) if m["name"] == y][0]
            A = sibling.atoms(facts, fa, only=SHARED)
            B = sibling.atoms(facts, fb, only=SHARED)
            # the per-group builder wraps the per-cell logic in a loop over the group's cells: compare the atom *texts*
            # after replacing the cell under consideration by a common token
            def norm(d, per_block):
                out = {}
                for k, v in d.items():
                    k2 = re.sub(r"param0\.get(Cell|Leaf)SpacialIndex\(loopvar\)", "CELL", k) if per_block else k.replace("param0", "CELL")
                    k2 = re.sub(r"param1", "LEVEL", k2) if per_block else k2.replace("param1", "LEVEL")
                    out[k2] = v
                return out
            A2, B2 = norm(A, False), norm(B, True)
            kinds = ("cond", "loop", "assign")
            A3 = set(k for k in A2 if k.split(" ")[0] in kinds)
            B3 = set(k for k in B2 if k.split(" ")[0] in kinds)
            res.instance(R + ".cell-vs-group", "%s::%s vs %s" % (cls, x, y), facts.loc(fb), "%d / %d shared-geometry atoms" % (len(A3), len(B3)))
            for k in sorted(A3 - B3):
                res.violation(R + ".cell-vs-group", tbf.rel(facts.path_of(fb)), fb["qname"], ("missing:" + k)[:110], fb["l"][1],
                              "the per-cell builder %s has `%s` but the per-group builder does not: the two would list different cells" % (x, k[:160]))
            for k in sorted(B3 - A3):
                if k.startswith("assign var:interaction.") or "getNbCells" in k or "getNbLeaves" in k or "testSelfInclusion" in k or "getElementFromSpacialIndex" in k or "getStartingSpacialIndex" in k or "getEndingSpacialIndex" in k:
                    continue   # iteration over the group's cells and in/out-of-group classification exist only in the per-group builder
                res.violation(R + ".cell-vs-group", tbf.rel(facts.path_of(B2[k])), fb["qname"], ("extra:" + k)[:110], B2[k]["l"][1],
                              "the per-group builder %s has `%s` which the per-cell builder %s does not" % (y, k[:160], x))
            n += 1
    res.floor(R, n, 16, "sibling comparisons")


def run(res, tier):
    facts = tbf.scan("core")
    res.units.append("umbrella TU 'core': TbfMortonSpaceIndex, TbfHilbertSpaceIndex, rotation / uniform kernels (closed forms), all non-kernel code (literal-dimension rule)")
    res.rule("C11.1 every relative-position encoder/decoder = (base 7, offset 3) or (base 3, offset 1), dimension 0 most significant; decoders present for each base; closed-form table indices agree; upper-half filter = floor(3^Dim/2) < code")
    res.rule("C11.2 parent/child/child-code/upper-bound shifts use the class's Dim; no literal-dimension shift or mask of an index outside ordering classes and 3-D kernels")
    codecs(facts, res)
    shift_width(facts, res)
    res.rule("C11.3 sibling agreement: Morton and Hilbert list builders / coordinate clamp / parent-child algebra have equal behavioural atoms; per-cell and per-group builders share limits, wrap shifts, too-close test, child loop, level guards")
    sibling_builders(facts, res)
    n, hits = literal_dimension(facts, res)
    res.instance("C11.2.literal-dimension", "scan", "src/", "%d shift/mask expressions examined outside ordering classes and kernels" % n)
    # positive control (expected count on a healthy tree is zero)
    fx = os.path.join(tbf.VERIF, "fixtures", "c11_literal_shift.cpp")
    ff = tbf.scan_file(fx, [], [os.path.join(tbf.VERIF, "fixtures") + os.sep])
    ctl = tbf.Result("control")
    _n, h = literal_dimension(ff, ctl, roots_only=True)
    if h != 2:
        raise AnalysisBroken("positive control fixtures/c11_literal_shift.cpp: %d of 2 literal-dimension constructs reported" % h)
    res.instance("C11.2.literal-dimension", "positive control", "verif:fixtures/c11_literal_shift.cpp", "2 of 2 seeded constructs reported")
