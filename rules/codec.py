"""`codec` engine: (base, offset, digit order) of every relative-position encoder / decoder.

Loop forms        p *= B; p += (x[d] ... + O)            over d = 0..Dim-1   -> encoder
                  x[Dim-1-d] = (p % B) - O; p /= B        over d = 0..Dim-1   -> decoder
closed forms      ((a+O)*B + (b+O))*B + c + O  (any polynomial spelling, expanded with sympy)
"""
import sympy

import tbf
from tbf import walk, kids, strip, AnalysisBroken


def _loop_var(facts, f):
    init, cond, inc, body = f["c"]
    v = [d for d in kids(init) if d.get("k") == "VarDecl"] if init else []
    if len(v) != 1 or not kids(v[0]) or cond is None or inc is None:
        return None
    i0 = strip(kids(v[0])[0])
    cond = strip(cond)
    inc = strip(inc)
    if i0.get("k") != "IntegerLiteral" or i0.get("val") != 0:
        return None
    if cond.get("k") != "BinaryOperator" or cond.get("op") != "<" or strip(kids(cond)[0]).get("did") != v[0]["did"]:
        return None
    if not (inc.get("k") == "UnaryOperator" and inc.get("op") == "++"):
        return None
    return v[0]["did"], facts.ntext(kids(cond)[1])


def _terms(n):
    """flatten a +/- expression into (sign, node) terms"""
    n = strip(n)
    if n.get("k") == "BinaryOperator" and n.get("op") in ("+", "-"):
        a, b = kids(n)
        out = _terms(a)
        for s, t in _terms(b):
            out.append((s if n["op"] == "+" else -s, t))
        return out
    return [(1, n)]


def _index_forms(facts, node, dvar):
    """how arrays are subscripted with the loop variable inside node: set of 'd' / 'rev' / 'other'"""
    forms = set()
    for x in walk(node):
        if x.get("k") in ("ArraySubscriptExpr", "CXXOperatorCallExpr"):
            idx = kids(x)[-1]
            uses = [y for y in walk(idx) if y.get("k") == "DeclRefExpr" and y.get("did") == dvar]
            if not uses:
                continue
            s = strip(idx)
            if s.get("k") == "DeclRefExpr":
                forms.add("d")
            else:
                t = facts.ntext(idx)
                forms.add("rev" if (t.endswith("-1-" + uses[0]["name"]) or "-1-" in t) else "other")
    return forms


def find_codecs(facts, fn):
    out = []
    b = tbf.body(fn)
    if b is None:
        return out
    for f in walk(b):
        if f.get("k") != "ForStmt":
            continue
        lv = _loop_var(facts, f)
        if lv is None:
            continue
        dvar, bound = lv
        body = f["c"][3]
        stmts = kids(body) if body.get("k") == "CompoundStmt" else [body]
        muls, adds, divs, mods = [], [], [], []
        for i, s in enumerate(stmts):
            s = strip(s)
            if s.get("k") == "CompoundAssignOperator":
                lhs = strip(kids(s)[0])
                rhs = strip(kids(s)[1])
                if lhs.get("k") != "DeclRefExpr":
                    continue
                if s["op"] == "*=" and rhs.get("k") == "IntegerLiteral":
                    muls.append((i, lhs["did"], rhs["val"], s))
                if s["op"] == "/=" and rhs.get("k") == "IntegerLiteral":
                    divs.append((i, lhs["did"], rhs["val"], s))
                if s["op"] == "+=":
                    adds.append((i, lhs["did"], kids(s)[1], s))
            if s.get("k") == "BinaryOperator" and s.get("op") == "=":
                lhs = strip(kids(s)[0])
                rhs = strip(kids(s)[1])
                if lhs.get("k") in ("ArraySubscriptExpr", "CXXOperatorCallExpr") and rhs.get("k") == "BinaryOperator" and rhs.get("op") == "-":
                    a, o = [strip(x) for x in kids(rhs)]
                    if a.get("k") == "BinaryOperator" and a.get("op") == "%" and o.get("k") == "IntegerLiteral":
                        p, bb = [strip(x) for x in kids(a)]
                        if p.get("k") == "DeclRefExpr" and bb.get("k") == "IntegerLiteral":
                            mods.append((i, p["did"], bb["val"], o["val"], lhs, s))
        for (i, p, B, ms) in muls:
            for (j, p2, e, as_) in adds:
                if p2 != p:
                    continue
                off = 0
                has_mod = any(y.get("k") == "BinaryOperator" and y.get("op") == "%" for y in walk(e))
                for sgn, t in _terms(e):
                    if t.get("k") == "IntegerLiteral":
                        off += sgn * t["val"]
                forms = _index_forms(facts, e, dvar)
                if forms - {"d", "rev"}:
                    order = "unknown"
                elif i < j:
                    order = "dimLast-most-significant" if "rev" in forms else "dim0-most-significant"
                else:
                    order = "dim0-most-significant" if "rev" in forms else "dimLast-most-significant"
                out.append({"kind": "other" if has_mod else "enc", "base": B, "offset": off, "order": order, "node": f, "bound": bound, "var": p})
        for (i, p, B, O, lhs, s) in mods:
            dv = [d for d in divs if d[1] == p and d[2] == B]
            if not dv:
                continue
            forms = _index_forms(facts, lhs, dvar)
            # first extracted digit is the least significant one
            if forms == {"rev"}:
                order = "dim0-most-significant"
            elif forms == {"d"}:
                order = "dimLast-most-significant"
            else:
                order = "unknown"
            out.append({"kind": "dec", "base": B, "offset": O, "order": order, "node": f, "bound": bound, "var": p})
    return out


def closed_forms(facts, fn):
    """VarDecl initialisers that are a base-B polynomial of three loop variables"""
    out = []
    b = tbf.body(fn)
    if b is None:
        return out
    loopvars = {}
    order = []
    for f in walk(b):
        if f.get("k") == "ForStmt":
            init = f["c"][0]
            for v in (kids(init) if init else []):
                if v.get("k") == "VarDecl":
                    loopvars[v["did"]] = v["name"]
    for x in walk(b):
        if x.get("k") != "VarDecl" or not kids(x):
            continue
        init = kids(x)[0]
        used = []
        for y in walk(init):
            if y.get("k") == "DeclRefExpr" and y.get("did") in loopvars and y["did"] not in used:
                used.append(y["did"])
        if len(used) != 3:
            continue
        if any(y.get("k") not in ("DeclRefExpr", "IntegerLiteral", "BinaryOperator", "ParenExpr", "ImplicitCastExpr") for y in walk(init)):
            continue
        syms = {d: sympy.Symbol(loopvars[d]) for d in used}

        def ev(n):
            n = strip(n)
            if n.get("k") == "IntegerLiteral":
                return sympy.Integer(n["val"])
            if n.get("k") == "DeclRefExpr":
                return syms[n["did"]]
            a, bb = [ev(c) for c in kids(n)]
            return {"+": a + bb, "-": a - bb, "*": a * bb}[n["op"]]
        try:
            poly = sympy.Poly(sympy.expand(ev(init)), *[syms[d] for d in used])
        except Exception:
            continue
        if poly.total_degree() != 1:
            continue
        coeffs = {d: int(poly.coeff_monomial(syms[d])) for d in used}
        const = int(poly.coeff_monomial(1))
        vals = sorted(coeffs.values(), reverse=True)
        if vals[2] != 1 or vals[1] < 2 or vals[0] != vals[1] ** 2:
            continue
        B = vals[1]
        denom = B * B + B + 1
        if const % denom:
            continue
        O = const // denom
        by_sig = sorted(used, key=lambda d: -coeffs[d])
        # dimension of each variable: position in a 3-element brace initialiser of the same function, else loop nesting order
        dims = {}
        for il in walk(b):
            if il.get("k") == "InitListExpr" and len(kids(il)) == 3:
                cand = []
                for e in kids(il):
                    ds = set(y["did"] for y in walk(e) if y.get("k") == "DeclRefExpr" and y.get("did") in used)
                    cand.append(next(iter(ds)) if len(ds) == 1 else None)
                if None not in cand and len(set(cand)) == 3:
                    dims = {d: i for i, d in enumerate(cand)}
                    break
        how = "position in a coordinate triple"
        if not dims:
            dims = {d: i for i, d in enumerate(sorted(used, key=lambda d: list(loopvars).index(d)))}
            how = "loop nesting order"
        order = "dim0-most-significant" if [dims[d] for d in by_sig] == [0, 1, 2] else ("dimLast-most-significant" if [dims[d] for d in by_sig] == [2, 1, 0] else "mixed")
        out.append({"kind": "enc-closed", "base": B, "offset": O, "order": order, "node": x, "how": how, "vars": [loopvars[d] for d in by_sig]})
    return out
