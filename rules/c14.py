"""C14 — group buffers are self-describing flat memory: byte copies are equivalent views.

Decided agreement clauses (every accessor in bounds for every count/size is arithmetic: not decided):
 1 trailer writer/reader agreement: the addresses of the item-count and offset tables computed by
   resetBlocksFromSizes (writer) and initHeader (reader) are equal as polynomials in
   (allocated size, NbBlocks, sizeof(long)); the two tables do not overlap; the allocation size is
   payload + both tables; block pointers are base + recorded offset in both; offsets are the running
   sum of the block sizes
 2 size/stride agreement per block kind: GetMemorySizeFromNbItems, both viewers and
   ApplyToAllElements(Const) derive the row stride from the same GetLeadingDim(quantity, alignment)
   and the extent is stride x the other quantity
 3 buffer order agreement: getDataPtrsAndSizes() <-> raw-memory constructors <-> get<X>Ptr/Size
   accessors (and, thorough, the StarPU handle builders) use data, multipole, local / data, rhs in
   the same slots
"""
import re

import sympy

import tbf
from tbf import walk, kids, strip, AnalysisBroken

LEVEL = "other"
TECHNIQUE = "writer/reader address polynomials (sympy), stride-source agreement and slot-order agreement over the clang AST"

KINDS = ["TbfMemoryScalar", "TbfMemoryVector", "TbfMemoryMultiRVector", "TbfMemoryMultiVVector"]


def symx(facts, n):
    """address / size expression -> sympy (unknown leaves become symbols named by their source text)"""
    n = strip(n)
    k = n.get("k")
    if k == "IntegerLiteral":
        return sympy.Integer(n["val"])
    if k in ("CXXReinterpretCastExpr", "CXXStaticCastExpr", "CStyleCastExpr", "CXXFunctionalCastExpr"):
        return symx(facts, kids(n)[0])
    if k == "UnaryOperator" and n.get("op") == "&":
        s = strip(kids(n)[0])
        if s.get("k") == "ArraySubscriptExpr":
            a, i = kids(s)
            return sympy.Symbol(facts.ntext(a)) + symx(facts, i)
    if k == "BinaryOperator" and n.get("op") in ("+", "-", "*"):
        a, b = [symx(facts, c) for c in kids(n)]
        return {"+": a + b, "-": a - b, "*": a * b}[n["op"]]
    if k == "UnaryExprOrTypeTraitExpr":
        return sympy.Symbol("sizeof(%s)" % n.get("argtype", facts.ntext(n)).replace(" ", ""))
    if k == "DeclRefExpr" and n.get("dk") == "Var" and n.get("local"):
        d = local_decl(facts, n["did"])
        if d is not None and kids(d) and (re.match(r"^(constexpr |const )", d.get("t", "") + " ") is not None or d.get("t", "").startswith("const")
                                          or d.get("t", "").rstrip().endswith("const") or d.get("constexpr")):
            return symx(facts, kids(d)[0])       # a local that cannot change after its initialisation (const value, or const pointer)
    return sympy.Symbol(facts.ntext(n))


_DECLS = {}


def local_decl(facts, did):
    """VarDecl of a local by its id (index built once per fact base)"""
    key = id(facts)
    if key not in _DECLS:
        idx = {}
        for fn in facts.functions:
            b = tbf.body(fn)
            if b is None:
                continue
            for x in walk(b):
                if x.get("k") == "VarDecl":
                    idx[x["did"]] = x
        _DECLS[key] = idx
    return _DECLS[key].get(did)


def covers(ret, want):
    """the reserved extent is the required one, possibly plus positive slack terms (extra bytes are harmless)"""
    r = ret.replace(" ", "")
    if r == want:
        return True
    for form in (want + "+", "+" + want):
        if r.startswith(want + "+"):
            rest = r[len(want) + 1:]
            return re.fullmatch(r"[\w:]+(\*[\w:]+)*(\+[\w:]+(\*[\w:]+)*)*", rest) is not None
        if r.endswith("+" + want):
            rest = r[:-len(want) - 1]
            return re.fullmatch(r"[\w:]+(\*[\w:]+)*(\+[\w:]+(\*[\w:]+)*)*", rest) is not None
    return False


def assignments_to(fn, member):
    out = []
    for x in walk(tbf.body(fn)):
        if x.get("k") == "BinaryOperator" and x.get("op") == "=":
            l = strip(kids(x)[0])
            if l.get("k") == "MemberExpr" and l.get("name") == member:
                out.append(x)
    return out


def trailer(facts, res):
    R = "C14.1.trailer-agreement"
    w = facts.fn("TbfMemoryBlock::resetBlocksFromSizes")
    r = facts.fn("TbfMemoryBlock::initHeader")
    exprs = {}
    for who, fn in (("writer", w), ("reader", r)):
        for mem in ("nbItemsInBlocks", "offsetOfBlocksForPtrs"):
            a = assignments_to(fn, mem)
            if len(a) == 1:
                exprs[(who, mem)] = (sympy.expand(symx(facts, kids(a[0])[1])), a[0])
                continue
            # the arithmetic may live in a helper of the same class: inline it with the arguments of the call
            found = None
            for c in walk(tbf.body(fn)):
                if c.get("k") in ("CallExpr", "CXXMemberCallExpr"):
                    nm = tbf.callee_name(c)
                    helpers = [g for g in facts.methods_of("TbfMemoryBlock") if g["name"] == nm and g is not fn and tbf.body(g) is not None and len(g["params"]) == len(tbf.call_args(c))]
                    for g in helpers:
                        ga = assignments_to(g, mem)
                        if len(ga) == 1:
                            e = sympy.expand(symx(facts, kids(ga[0])[1]))
                            sub = {sympy.Symbol(p["name"]): sympy.expand(symx(facts, arg)) for p, arg in zip(g["params"], tbf.call_args(c))}
                            found = (sympy.expand(e.subs(sub)), c)
            if found is None:
                raise AnalysisBroken("%s: %d assignments to %s (1 confirmed by reading) and no helper computing it" % (fn["qname"], len(a), mem))
            exprs[(who, mem)] = found
    f = tbf.rel(facts.path_of(w))
    for mem in ("nbItemsInBlocks", "offsetOfBlocksForPtrs"):
        we, wn = exprs[("writer", mem)]
        re_, rn = exprs[("reader", mem)]
        res.instance(R, mem, facts.loc(wn), "writer %s ; reader %s" % (we, re_))
        if sympy.simplify(we - re_) != 0:
            res.violation(R, f, "TbfMemoryBlock::initHeader", mem, rn["l"][1],
                          "the reader locates the %s table at %s, the writer stores it at %s: a byte copy viewed through the raw-memory constructor would read garbage" % (mem, re_, we))
    # tables do not overlap: distance = sizeof(long)*NbBlocks
    d = sympy.expand(exprs[("writer", "nbItemsInBlocks")][0] - exprs[("writer", "offsetOfBlocksForPtrs")][0])
    want = sympy.Symbol("sizeof(long)") * sympy.Symbol("NbBlocks")
    res.instance(R, "table-distance", facts.loc(w), "count table - offset table = %s" % d)
    if sympy.simplify(d - want) != 0:
        res.violation(R, f, w["qname"], "table-distance", w["l"][1], "item-count and offset tables are %s bytes apart, each holds sizeof(long)*NbBlocks bytes" % d)
    # both tables end at the allocation end
    end = sympy.Symbol("rawMemoryPtr") + sympy.Symbol("allocatedMemorySizeInByte")
    top = sympy.expand(exprs[("writer", "nbItemsInBlocks")][0] + want - end)
    if sympy.simplify(top) != 0:
        res.violation(R, f, w["qname"], "trailer-end", w["l"][1], "the item-count table does not end at the end of the allocation")
    # allocation = payload + 2 tables
    tot = [x for x in walk(tbf.body(w)) if x.get("k") == "VarDecl" and x.get("name") == "totalMemoryToAlloc"]
    if len(tot) != 1:
        raise AnalysisBroken("resetBlocksFromSizes: totalMemoryToAlloc not found")
    te = sympy.expand(symx(facts, kids(tot[0])[0]))
    payload = [s for s in te.free_symbols if "NbBlocks" in str(s) and "second" in str(s)]
    res.instance(R, "allocation-size", facts.loc(tot[0]), str(te))
    slack = sympy.expand(te - payload[0] - 2 * want) if len(payload) == 1 else None
    # the allocation must hold the payload and both tables; extra bytes (all sizes / constants are positive quantities) are harmless slack
    if slack is None or not (slack == 0 or all(c > 0 for c in slack.as_coefficients_dict().values())):
        res.violation(R, f, w["qname"], "allocation-size", tot[0]["l"][1], "allocation size %s does not cover payload end + two tables of sizeof(long)*NbBlocks" % te)
    # block pointers = base + recorded offset, in both; the layout may depend on the buffer's CONTENT only, never on its address
    def base_of(fn, n, depth=0):
        """('base', None) when n is the buffer's base pointer (member, through pointer locals); ('addr', site) when its value
        was computed from the numeric address of the base pointer (pointer -> integer cast in a helper it went through)"""
        n = strip(n)
        if n is None or depth > 6:
            return ("?", n)
        k = n.get("k")
        if k == "MemberExpr" and n.get("dk") == "Field":
            return ("base", n["name"])
        if k in ("CXXReinterpretCastExpr", "CXXStaticCastExpr", "CStyleCastExpr", "CXXConstCastExpr") and kids(n) and "*" in (n.get("tw") or n.get("t") or "") \
                and "*" in (strip(kids(n)[0]).get("t") or "*"):
            return base_of(fn, kids(n)[0], depth + 1)       # pointer-to-pointer cast
        if k == "DeclRefExpr" and n.get("dk") == "Var":
            d = local_decl(facts, n["did"])
            if d is not None and kids(d):
                return base_of(fn, kids(d)[0], depth + 1)
        if k in ("CallExpr", "CXXMemberCallExpr"):
            args = tbf.call_args(n)
            nm = tbf.callee_name(n)
            cands = [g for g in facts.functions if g["name"] == nm and not g.get("inst") and tbf.body(g) is not None and len(g["params"]) == len(args)]
            for a in args:
                b0 = base_of(fn, a, depth + 1)
                if b0[0] == "base":
                    for g in cands:
                        for y in walk(tbf.body(g)):
                            if y.get("k") in ("CXXReinterpretCastExpr", "CStyleCastExpr") and re.search(r"(uintptr_t|intptr_t|size_t|unsigned long|long)\s*$", (y.get("tw") or y.get("t") or "")) \
                                    and "*" in (strip(kids(y)[0]).get("t") or ""):
                                return ("addr", y)
                    if len(cands) == 1:
                        rs = [y for y in walk(tbf.body(cands[0])) if y.get("k") == "ReturnStmt" and kids(y)]
                        if len(rs) == 1:
                            r0 = strip(kids(rs[0])[0])
                            if r0.get("k") == "DeclRefExpr" and r0.get("did") == cands[0]["params"][args.index(a)]["did"]:
                                return b0
                    return ("?", n)
        for y in walk(n):
            if y.get("k") in ("CXXReinterpretCastExpr", "CStyleCastExpr") and kids(y) and "*" not in (y.get("tw") or y.get("t") or "*") and "*" in (strip(kids(y)[0]).get("t") or ""):
                if base_of(fn, kids(y)[0], depth + 1)[0] == "base":
                    return ("addr", y)
        return ("?", n)

    for who, fn in (("writer", w), ("reader", r)):
        seen = 0
        for x in walk(tbf.body(fn)):
            if x.get("k") == "BinaryOperator" and x.get("op") == "=":
                l = strip(kids(x)[0])
                if l.get("k") == "ArraySubscriptExpr" and strip(kids(l)[0]).get("name") == "blockRawPtrs":
                    seen += 1
                    rhs = strip(kids(x)[1])
                    t = facts.ntext(rhs)
                    idx = facts.ntext(kids(l)[1])
                    res.instance(R, "block-pointer/" + who, facts.loc(x), t)
                    bexp = oexp = None
                    if rhs.get("k") == "UnaryOperator" and rhs.get("op") == "&" and strip(kids(rhs)[0]).get("k") == "ArraySubscriptExpr":
                        bexp, oexp = kids(strip(kids(rhs)[0]))
                    elif rhs.get("k") == "BinaryOperator" and rhs.get("op") == "+":
                        bexp, oexp = kids(rhs)
                    if bexp is None:
                        raise AnalysisBroken("%s: block pointer `%s` is not of the form base + offset" % (fn["qname"], t[:80]))
                    kind, what = base_of(fn, bexp)
                    if kind == "addr":
                        res.violation(R, tbf.rel(facts.path_of(fn)), fn["qname"], "block-pointer-address-dependent", x["l"][1],
                                      "block pointer '%s' starts from a value computed from the numeric ADDRESS of the buffer (%s at %s): where the blocks sit then depends on where the buffer lies, "
                                      "and a byte copy at an address with another residue is read at shifted positions" % (t[:80], facts.ntext(what)[:60], facts.loc(what)))
                        continue
                    if kind != "base" or what != "rawMemoryPtr":
                        raise AnalysisBroken("%s: base of the block pointer `%s` not understood" % (fn["qname"], t[:80]))
                    if facts.ntext(oexp) != "offsetOfBlocksForPtrs[%s]" % idx:
                        res.violation(R, tbf.rel(facts.path_of(fn)), fn["qname"], "block-pointer", x["l"][1], "block pointer is '%s', not base + recorded offset of the same block" % t)
        if not seen:
            raise AnalysisBroken("%s: block pointer assignment not found" % fn["qname"])
    # recorded values: counts come from the argument, offsets from the computed table, same block index on both sides
    sizes_param = w["params"][0]["did"]
    table = [v for v in walk(tbf.body(w)) if v.get("k") == "VarDecl" and kids(v) and tbf.callee_name(strip(kids(v)[0])) == "GetSizeAndOffsetOfBlocks"]
    if len(table) != 1:
        raise AnalysisBroken("resetBlocksFromSizes: the size/offset table is not a local initialised by GetSizeAndOffsetOfBlocks")
    rec = {"nbItemsInBlocks": False, "offsetOfBlocksForPtrs": False}
    for x in walk(tbf.body(w)):
        if x.get("k") == "BinaryOperator" and x.get("op") == "=":
            l = strip(kids(x)[0])
            r = strip(kids(x)[1])
            if l.get("k") == "ArraySubscriptExpr" and strip(kids(l)[0]).get("name") in rec:
                mem = strip(kids(l)[0])["name"]
                li = facts.ntext(kids(l)[1])
                if mem == "nbItemsInBlocks":
                    ok = r.get("k") in ("ArraySubscriptExpr", "CXXOperatorCallExpr") and strip(kids(r)[-2]).get("did") == sizes_param and facts.ntext(kids(r)[-1]) == li
                else:
                    ok = r.get("k") in ("MemberExpr", "CXXDependentScopeMemberExpr") and r.get("name") == "second" and kids(r) \
                        and strip(kids(r)[0]).get("k") in ("ArraySubscriptExpr", "CXXOperatorCallExpr") \
                        and strip(kids(strip(kids(r)[0]))[-2]).get("did") == table[0]["did"] and facts.ntext(kids(strip(kids(r)[0]))[-1]) == li
                res.instance(R, "record:" + mem, facts.loc(x), facts.ntext(x)[:100])
                rec[mem] = rec[mem] or ok
                if not ok:
                    res.violation(R, f, w["qname"], "record:" + mem, x["l"][1], "the trailer records `%s`: block i must record its own item count (argument i) / its own computed offset (table[i].second)" % facts.ntext(x)[:100])
    for mem, seen in rec.items():
        if not seen:
            res.violation(R, f, w["qname"], "record:" + mem, w["l"][1], "the trailer table %s is never filled" % mem)
    # offsets are the running sum
    g = facts.fn("TbfMemoryBlock::GetSizeAndOffsetOfBlocks")
    rets = [r for r in walk(tbf.body(g), into_lambdas=False) if r.get("k") == "ReturnStmt" and kids(r)]
    tv = strip(kids(rets[-1])[0]) if rets else None
    if tv is None or tv.get("k") != "DeclRefExpr":
        raise AnalysisBroken("GetSizeAndOffsetOfBlocks does not return a local table")
    tdid = tv["did"]
    n = 0
    syms = {}

    def idx_sym(node):
        t = facts.ntext(node)
        return sympy.sympify(re.sub(r"[A-Za-z_]\w*", lambda m: syms.setdefault(m.group(0), "s%d" % len(syms)), t))

    def elem(node, member):
        """T[idx].member -> idx node, else None"""
        node = strip(node)
        if node.get("k") in ("MemberExpr", "CXXDependentScopeMemberExpr") and node.get("name") == member and kids(node):
            b = strip(kids(node)[0])
            if b.get("k") in ("ArraySubscriptExpr", "CXXOperatorCallExpr") and strip(kids(b)[-2]).get("did") == tdid:
                return kids(b)[-1]
        return None
    for x in walk(tbf.body(g), into_lambdas=False):
        if x.get("k") == "BinaryOperator" and x.get("op") == "=":
            li = elem(kids(x)[0], "second")
            if li is None:
                continue
            n += 1
            rhs = strip(kids(x)[1])
            ok = False
            if rhs.get("k") == "IntegerLiteral" and rhs.get("val") == 0:
                ok = strip(li).get("k") == "IntegerLiteral" and strip(li).get("val") == 0
            elif rhs.get("k") == "BinaryOperator" and rhs.get("op") == "+":
                a, b = kids(rhs)
                parts = {"first": elem(a, "first") or elem(b, "first"), "second": elem(a, "second") or elem(b, "second")}
                if parts["first"] is not None and parts["second"] is not None:
                    try:
                        ok = sympy.simplify(idx_sym(li) - idx_sym(parts["first"]) - 1) == 0 and sympy.simplify(idx_sym(li) - idx_sym(parts["second"]) - 1) == 0
                    except Exception:
                        ok = False     # the index is not of the form `this block - 1`
            res.instance(R, "running-sum[%s]" % facts.ntext(li), facts.loc(x), facts.ntext(kids(x)[1])[:100])
            if not ok:
                res.violation(R, tbf.rel(facts.path_of(g)), g["qname"], "running-sum[%s]" % facts.ntext(li), x["l"][1],
                              "offset of block %s is '%s', not size + offset of the previous block: blocks would overlap or leave the allocation" % (facts.ntext(li), facts.ntext(kids(x)[1])[:80]))
    res.floor(R + ".running-sum", n, 3, "offset assignments")


def strides(facts, res):
    R = "C14.2.stride-agreement"
    for kind in KINDS:
        fns = [f for f in facts.functions if not f.get("inst") and (f.get("clsq", "") == kind or f.get("clsq", "").startswith(kind + "::"))]
        if not fns:
            raise AnalysisBroken("block kind %s not found" % kind)
        calls = []
        for fn in fns:
            nodes = [tbf.body(fn)] + [c for i in fn.get("inits", []) for c in i["c"]]
            for root in nodes:
                for x in walk(root):
                    if x.get("k") == "CallExpr" and tbf.callee_name(x) == "GetLeadingDim":
                        a0 = strip(tbf.call_args(x)[0])
                        a1 = strip(tbf.call_args(x)[1])
                        cat = "count" if a0.get("dk") == "ParmVar" else ("rows" if a0.get("dk") == "NonTypeTemplateParm" else "other:" + facts.ntext(a0))
                        calls.append((fn, x, cat, facts.ntext(a1)))
        cats = set(c[2] for c in calls)
        aligns = set(c[3] for c in calls)
        size = [f for f in fns if f["name"] == "GetMemorySizeFromNbItems"]
        if len(size) != 1:
            raise AnalysisBroken("%s::GetMemorySizeFromNbItems not found" % kind)
        rets = [r for r in walk(tbf.body(size[0])) if r.get("k") == "ReturnStmt"]
        ret = ""
        if rets and kids(rets[0]):
            sdecl = {v["did"]: v for v in walk(tbf.body(size[0])) if v.get("k") == "VarDecl"}

            def cls_of(n):
                n = strip(n)
                if n.get("k") == "BinaryOperator" and n.get("op") == "*":
                    return "*".join(sorted(cls_of(c) for c in kids(n)))
                if n.get("k") in ("CallExpr", "CXXMemberCallExpr") and tbf.callee_name(n) == "GetLeadingDim":
                    return "leadingDim"          # the stride returned directly instead of through a local
                if n.get("k") == "DeclRefExpr":
                    d = sdecl.get(n.get("did"))
                    if d is not None and kids(d) and tbf.callee_name(strip(kids(d)[0])) == "GetLeadingDim":
                        return "leadingDim"
                    if n.get("dk") == "ParmVar":
                        return "inNbItems"
                    if n.get("dk") == "NonTypeTemplateParm":
                        return "NbRows"
                return facts.ntext(n)
            ret = cls_of(kids(rets[0])[0])
        res.instance(R, kind, facts.loc(size[0]), "stride from %s (%d sites), alignment %s, extent = %s" % (sorted(cats), len(calls), sorted(aligns), ret))
        f = tbf.rel(facts.path_of(size[0]))
        if len(cats) > 1 or len(aligns) > 1:
            off = [c for c in calls if c[2] != calls[0][2] or c[3] != calls[0][3]]
            res.violation(R, f, off[0][0]["qname"], kind + ":stride-source", off[0][1]["l"][1],
                          "block kind %s derives its row stride from different quantities (%s / alignment %s): size, viewers and iteration would disagree" % (kind, sorted(cats), sorted(aligns)))
        if kind == "TbfMemoryMultiRVector":
            if cats != {"count"} or not covers(ret, "NbRows*leadingDim"):
                res.violation(R, f, size[0]["qname"], kind + ":extent", size[0]["l"][1], "multi-row block: extent must be NbRows x stride(count); found stride from %s, extent %s" % (sorted(cats), ret))
            want_calls = 5
        elif kind == "TbfMemoryMultiVVector":
            if cats != {"rows"} or not covers(ret, "inNbItems*leadingDim"):
                res.violation(R, f, size[0]["qname"], kind + ":extent", size[0]["l"][1], "multi-value block: extent must be count x stride(NbRows); found stride from %s, extent %s" % (sorted(cats), ret))
            want_calls = 5
        else:
            if cats != {"count"} or not covers(ret, "leadingDim"):
                res.violation(R, f, size[0]["qname"], kind + ":extent", size[0]["l"][1], "extent must be the stride of the item count; found %s / %s" % (sorted(cats), ret))
            want_calls = 1
        # a stride that is the byte stride divided by the element size (directly, or through a constant `alignment / sizeof(T)`) is
        # truncated - to zero for an element type larger than the alignment, which the block kinds accept: rows then alias each other
        trunc = []
        roots_ = [(fn_, tbf.body(fn_)) for fn_ in fns if tbf.body(fn_) is not None]
        cl_ = [c_ for c_ in facts.classes if c_["name"] == kind]
        for c_ in cl_:
            for sm_ in c_.get("statics", []):
                for ic_ in (sm_.get("c") or []):
                    if ic_:
                        roots_.append(({"qname": kind + "::" + sm_.get("name", "?"), "l": sm_.get("l", [0, 0])}, ic_))
        for fn_, root in roots_:
            for x in walk(root):
                if x.get("k") == "BinaryOperator" and x.get("op") == "/" and any(y.get("k") == "UnaryExprOrTypeTraitExpr" or "sizeof" in (facts.ntext(y) or "")[:8] for y in walk(kids(x)[1])):
                    num = facts.ntext(kids(x)[0])
                    # (a leading dimension divided by sizeof(T) is exact: the kinds static_assert that sizeof(T) divides the alignment or
                    # is a multiple of it, and the leading dimension is the byte size of the row rounded up to the alignment)
                    if re.search(r"Alignement", num) and not re.search(r"GetLeadingDim|leadingDim", num):
                        trunc.append((fn_, x))
        for fn_, x in trunc[:1]:
            res.violation(R, tbf.rel(facts.path_of(x)), fn_["qname"], kind + ":stride-in-elements", x["l"][1],
                          "`%s` turns the alignment into a number of elements by integer division: the block kinds accept element types whose size is a multiple of the alignment, for which the quotient is 0 - a stride built from it makes the rows of the block alias each other and the viewers no longer address what GetMemorySizeFromNbItems laid out" % facts.ntext(x)[:70])
        if len(calls) < want_calls and not trunc:
            raise AnalysisBroken("%s: %d GetLeadingDim sites found (%d confirmed by reading)" % (kind, len(calls), want_calls))
        # every place that multiplies by leadingDim uses the row (resp. item) index
        for fn in fns:
            for x in walk(tbf.body(fn)):
                if x.get("k") == "BinaryOperator" and x.get("op") == "*":
                    a, b = [strip(c) for c in kids(x)]
                    if b.get("name") == "leadingDim" or a.get("name") == "leadingDim":
                        other = a if b.get("name") == "leadingDim" else b
                        res.instance(R + ".row-offset", "%s::%s@%d" % (fn.get("clsq"), fn["name"], x["l"][1]), facts.loc(x), facts.ntext(x))
    # GetLeadingDim itself rounds the byte size up to the alignment
    g = [f for f in facts.functions if f["name"] == "GetLeadingDim" and not f.get("inst")]
    if len(g) != 1:
        raise AnalysisBroken("TbfUtils::GetLeadingDim not found")
    pn = {p["name"]: "P%d" % i for i, p in enumerate(g[0]["params"])}
    loc = {v["name"]: facts.ntext(kids(v)[0]) for v in walk(tbf.body(g[0])) if v.get("k") == "VarDecl" and kids(v)}
    rets = [r for r in walk(tbf.body(g[0])) if r.get("k") == "ReturnStmt" and kids(r)]
    t = facts.ntext(kids(rets[0])[0]) if rets else ""
    for _ in range(3):
        t = re.sub(r"[A-Za-z_]\w*", lambda m: "(" + loc[m.group(0)] + ")" if m.group(0) in loc else m.group(0), t)
    t = re.sub(r"[A-Za-z_]\w*", lambda m: pn.get(m.group(0), m.group(0)), t)
    res.instance(R, "GetLeadingDim", facts.loc(g[0]), t)
    want = "(((sizeof(DataType)*P0)+P1-1)/P1)*P1"
    if t.replace(" ", "") != want:
        res.violation(R, tbf.rel(facts.path_of(g[0])), g[0]["qname"], "round-up", g[0]["l"][1], "GetLeadingDim is `%s`, not the round-up of sizeof(DataType)*count to the alignment (%s)" % (t, want))


def block_ref(facts, cls, n, depth=0):
    """(block member, 'ptr' | 'size') an expression hands out, following the class's own one-line accessors"""
    n = strip(n)
    if n is None or depth > 3 or n.get("k") not in ("CXXMemberCallExpr", "CallExpr"):
        return None
    nm = tbf.callee_name(n)
    b = tbf.call_base(n)
    if nm in ("getPtr", "getAllocatedMemorySizeInByte") and b is not None:
        bb = strip(b)
        if bb.get("k") in ("MemberExpr", "CXXDependentScopeMemberExpr") and bb.get("name"):
            return (bb["name"], "ptr" if nm == "getPtr" else "size")
        return None
    if b is None or strip(b).get("k") == "CXXThisExpr" or n.get("k") == "CallExpr" or (strip(b).get("k") in ("MemberExpr",) and False):
        ms = [m for m in facts.methods_of(cls) if m["name"] == nm and tbf.body(m) is not None and not m["params"]]
        got = set()
        for m in ms:
            rs = [r for r in walk(tbf.body(m)) if r.get("k") == "ReturnStmt" and kids(r)]
            if len(rs) != 1:
                return None
            got.add(block_ref(facts, cls, kids(rs[0])[0], depth + 1))
        if len(got) == 1:
            return next(iter(got))
    return None


def slot_of_field(facts, cls):
    """block member -> slot index in getDataPtrsAndSizes (all overloads must agree)"""
    fns = [f for f in facts.methods_of(cls) if f["name"] == "getDataPtrsAndSizes"]
    if not fns:
        raise AnalysisBroken("%s::getDataPtrsAndSizes not found" % cls)
    out = {}
    for fn in fns:
        order = []

        def rec(x):
            if x is None or not isinstance(x, dict):
                return
            if x.get("k") in ("CXXMemberCallExpr", "CallExpr"):
                r = block_ref(facts, cls, x)
                if r is not None:
                    order.append((r[0], r[1], x["l"][1], x.get("b", 0)))
                    return
            for c in x.get("c", []) or []:
                rec(c)
        rec(tbf.body(fn))
        order.sort(key=lambda t: (t[2], t[3]))
        if len(order) < 2 or len(order) % 2:
            raise AnalysisBroken("%s: %d pointer / size expressions recognised" % (fn["qname"], len(order)))
        seq = []
        for i in range(0, len(order), 2):
            (a, ka, _l, _b), (b, kb, _l2, _b2) = order[i], order[i + 1]
            if (ka, kb) != ("ptr", "size"):
                return None, "entry %d of %s is (%s of %s, %s of %s), not (pointer, size)" % (i // 2, fn["qname"], ka, a, kb, b), fn
            if a != b:
                return None, "pointer of %s paired with size of %s in %s" % (a, b, fn["qname"]), fn
            seq.append(a)
        out.setdefault(tuple(seq), fn)
    if len(out) != 1:
        return None, "const and non-const getDataPtrsAndSizes list the blocks in different orders: %s" % list(out), fns[0]
    return list(out)[0], None, fns[0]


def buffer_order(facts, res, tier):
    R = "C14.3.buffer-order"
    for cls in ("TbfCellsContainer", "TbfParticlesContainer"):
        seq, err, fn = slot_of_field(facts, cls)
        f = tbf.rel(facts.path_of(fn))
        if err:
            res.violation(R, f, fn["qname"], "ptrs-and-sizes", fn["l"][1], err)
            continue
        res.instance(R, cls + "::getDataPtrsAndSizes", facts.loc(fn), "slots %s" % (list(seq),))
        # raw-memory constructors
        for m in facts.methods_of(cls):
            if m["kind"] != "CXXConstructor":
                continue
            ptypes = [p["t"] for p in m["params"]]
            inits = {i.get("member"): i for i in m.get("inits", []) if i.get("member")}
            if any("std::pair<unsigned char" in t for t in ptypes):
                for slot, fld in enumerate(seq):
                    it = inits.get(fld)
                    txt = "".join(facts.ntext(c) for c in it["c"]) if it else ""
                    ok = ("[%d].first" % slot) in txt and ("[%d].second" % slot) in txt
                    res.instance(R, "%s ctor(array)/%s" % (cls, fld), facts.loc(m), txt[:90])
                    if not ok:
                        res.violation(R, f, m["qname"], "array-ctor:" + fld, m["l"][1], "raw-memory constructor initialises %s from '%s', getDataPtrsAndSizes() puts it in slot %d" % (fld, txt[:80], slot))
            elif sum(1 for t in ptypes if t == "unsigned char *") == len(seq):
                ptr_params = [p for p in m["params"] if p["t"] == "unsigned char *"]
                size_params = [p for p in m["params"] if "size_t" in p["t"]]
                for slot, fld in enumerate(seq):
                    it = inits.get(fld)
                    used = [y.get("name") for c in (it["c"] if it else []) for y in walk(c) if y.get("k") == "DeclRefExpr" and y.get("dk") == "ParmVar"]
                    want = [ptr_params[slot]["name"], size_params[slot]["name"]] if slot < len(size_params) else []
                    res.instance(R, "%s ctor(ptrs)/%s" % (cls, fld), facts.loc(m), "initialised from %s" % used[:2])
                    if used[:2] != want:
                        res.violation(R, f, m["qname"], "ptr-ctor:" + fld, m["l"][1], "raw-memory constructor initialises %s from %s, expected parameters %s (slot %d)" % (fld, used[:2], want, slot))
        # get<X>Ptr / get<X>Size accessors name one block each, pointer and size of the same block
        acc = {}
        for m in facts.methods_of(cls):
            mm = re.match(r"^get(\w+?)(Ptr|Size)$", m["name"])
            if not mm or m["name"] == "getDataPtrsAndSizes" or tbf.body(m) is None:
                continue
            rs = [r for r in walk(tbf.body(m)) if r.get("k") == "ReturnStmt" and kids(r)]
            ref = block_ref(facts, cls, kids(rs[0])[0]) if len(rs) == 1 else None
            acc.setdefault(mm.group(1), {}).setdefault(mm.group(2), set()).add(ref)
        for name, d in sorted(acc.items()):
            res.instance(R, "%s::get%s{Ptr,Size}" % (cls, name), facts.loc(fn), "%s" % {k: sorted(map(str, v)) for k, v in d.items()})
            p_, s_ = d.get("Ptr", set()), d.get("Size", set())
            if None in p_ or None in s_ or len(p_) != 1 or len(s_) != 1:
                raise AnalysisBroken("%s::get%s{Ptr,Size}: accessor bodies not recognised (%s)" % (cls, name, d))
            (pb, pk), (sb, sk) = next(iter(p_)), next(iter(s_))
            if pb != sb or pk != "ptr" or sk != "size":
                res.violation(R, f, "%s::get%sPtr" % (cls, name), "accessor-pair:" + name, fn["l"][1], "get%sPtr hands out the %s of %s, get%sSize the %s of %s: not pointer and size of one block" % (name, pk, pb, name, sk, sb))
    if tier in ("quick", "thorough"):      # the Specx / StarPU executors (declaration stubs) are analysed on every run: the unit tests never compile them, so nothing else would notice a change there
        sf = tbf.scan("starpu")
        res.units.append("umbrella TU 'starpu' (declaration stub): TbfStarPUHandleBuilder(Tsm)")
        for fn in sf.functions:
            if fn.get("cls", "").startswith("TbfStarPUHandleBuilder") and fn["name"].startswith("Get") and "Handles" in fn["name"]:
                regs = []
                for x in walk(tbf.body(fn)):
                    if x.get("k") == "CallExpr" and tbf.callee_name(x) == "starpu_variable_data_register":
                        a = tbf.call_args(x)
                        h = [y.get("name") for y in walk(a[0]) if y.get("k") == "DeclRefExpr"][0]
                        p = [tbf.callee_name(y) for y in walk(a[2]) if y.get("k") in ("CallExpr", "CXXMemberCallExpr") and (tbf.callee_name(y) or "").startswith("get")]
                        s = [tbf.callee_name(y) for y in walk(a[3]) if y.get("k") in ("CallExpr", "CXXMemberCallExpr") and (tbf.callee_name(y) or "").startswith("get")]
                        regs.append((h, p[0] if p else "?", s[0] if s else "?", x))
                for h, p, s, x in regs:
                    res.instance(R + ".starpu", "%s %s" % (fn["qname"], h), sf.loc(x), "%s / %s" % (p, s))
                    if p[:-3] != s[:-4]:
                        res.violation(R + ".starpu", tbf.rel(sf.path_of(x)), fn["qname"], h, x["l"][1], "handle %s registers the pointer of %s with the size of %s" % (h, p, s))
                # order in the std::array initialiser
                for x in walk(tbf.body(fn)):
                    if x.get("k") == "VarDecl" and "std::array<starpu_data_handle_t" in x.get("t", ""):
                        names = [y.get("name") for y in walk(x) if y.get("k") == "DeclRefExpr" and y.get("name", "").startswith("handle")]
                        byh = {h: p for h, p, s, _x in regs}
                        got = [byh.get(nm, "?") for nm in names]
                        want3 = ["getDataPtr", "getMultipolePtr", "getLocalPtr"]
                        want2 = ["getDataPtr", "getRhsPtr"]
                        res.instance(R + ".starpu", "%s slots" % fn["qname"], sf.loc(x), str(got))
                        if got not in (want3, want2, want3[:2], ["getDataPtr", "getLocalPtr"]) and got != want3[:len(got)]:
                            res.violation(R + ".starpu", tbf.rel(sf.path_of(x)), fn["qname"], "slots", x["l"][1], "handle array lists the blocks as %s" % got)


def address_independent(facts, res):
    """C14.4: nothing in the container / group classes derives a position inside a buffer from the numeric value of a pointer.
    A byte copy lies at another address; a block, row or element whose place depends on the address (rounding a pointer up to
    an alignment, offsets computed from `ptr % alignment`) is read at another place in the copy."""
    R = "C14.4.address-independent"
    n = 0
    for fn in facts.functions:
        if fn.get("inst") or tbf.body(fn) is None:
            continue
        path = tbf.rel(facts.path_of(fn)) if fn.get("l") else ""
        if not (path.startswith("src/containers/") or path.startswith("src/core/") or path.startswith("verif:fixtures")):
            continue
        n += 1
        for y in walk(tbf.body(fn)):
            if y.get("k") in ("CXXReinterpretCastExpr", "CStyleCastExpr", "CXXFunctionalCastExpr") and kids(y):
                to = (y.get("tw") or y.get("t") or "")
                frm = (strip(kids(y)[0]).get("t") or "")
                if "*" in frm and "*" not in to and re.search(r"(uintptr_t|intptr_t|size_t|ptrdiff_t|unsigned long|long|unsigned int|int)\s*$", to.strip()):
                    res.violation(R, path, fn["qname"], "pointer-to-integer@%d" % y["l"][1], y["l"][1],
                                  "`%s` turns a buffer pointer into a number in %s: a position computed from it differs between a buffer and its byte copy at another address, "
                                  "so the copy viewed through the raw-memory constructors is read at shifted positions" % (facts.ntext(y)[:60], fn["name"]))
    res.instance(R, "container and group classes", "src/containers, src/core", "%d functions: no pointer is converted to an integer" % n)
    return n


def views_from_buffer(facts, res, classes=("TbfParticlesContainer", "TbfCellsContainer"), R="C14.6.views-from-buffer"):
    """A view over a copied buffer must behave like the original: whatever a container object holds BESIDES its memory blocks (a cached
    row pointer, a count, a directory) is derived from the buffer, so every way of obtaining a container - every constructor, and every
    member function that re-initialises the blocks' headers - has to establish it.  Found from the code: the block members are those the
    raw-memory constructor initialises from its pointer parameters; any other non-static data member that some member function or
    constructor writes must be written (directly or through same-object helpers) by all of them."""
    n = 0
    for cls in classes:
        cl = [c for c in facts.classes if c["name"] == cls]
        if len(cl) != 1:
            raise AnalysisBroken("%s: class not found" % cls)
        fields = {f["name"]: f for f in cl[0].get("fields", [])}
        methods = [m for m in facts.methods_of(cls) if tbf.body(m) is not None and not m.get("inst")]
        ctors = [m for m in methods if m["kind"] == "CXXConstructor"]
        raw = [m for m in ctors if any("unsigned char" in p["t"] for p in m["params"])]
        if not raw:
            raise AnalysisBroken("%s: no raw-memory constructor found" % cls)
        blocks = set()
        for m in raw:
            blocks |= {i.get("member") for i in m.get("inits", []) if i.get("member") and i.get("written")}
        extra = sorted(set(fields) - blocks)
        byname = {}
        for m in methods:
            byname.setdefault(m["name"], []).append(m)

        def root(l):
            l = strip(l)
            for _ in range(6):
                k = l.get("k")
                if k in ("ArraySubscriptExpr",) and kids(l):
                    l = strip(kids(l)[0])
                elif k == "CXXOperatorCallExpr" and l.get("op") in ("[]", "*") and len(kids(l)) >= 2:
                    l = strip(kids(l)[1])
                elif k == "UnaryOperator" and l.get("op") == "*" and kids(l):
                    l = strip(kids(l)[0])
                else:
                    break
            if l.get("k") in ("MemberExpr", "CXXDependentScopeMemberExpr") and l.get("name") in fields and (not kids(l) or strip(kids(l)[0]).get("k") == "CXXThisExpr"):
                return l["name"]
            return None

        def own(m):
            out = {i.get("member") for i in m.get("inits", []) if i.get("member") and i.get("written")}
            for x in walk(tbf.body(m)):
                k = x.get("k")
                if k in ("BinaryOperator", "CompoundAssignOperator") and x.get("op", "").endswith("=") and x.get("op") not in ("==", "!=", "<=", ">="):
                    out.add(root(kids(x)[0]))
                elif k == "CXXOperatorCallExpr" and x.get("op", "").endswith("=") and x.get("op") not in ("==", "!=", "<=", ">=") and len(kids(x)) >= 2:
                    out.add(root(kids(x)[1]))
                elif k in ("CallExpr", "CXXMemberCallExpr") and tbf.call_base(x) is not None and tbf.callee_name(x) in ("fill", "assign", "resize", "clear", "push_back", "emplace_back", "reset", "swap"):
                    out.add(root(tbf.call_base(x)))
            out.discard(None)
            return out

        def closure(m, seen=None, depth=0):
            seen = seen if seen is not None else set()
            if id(m) in seen or depth > 4:
                return set()
            seen.add(id(m))
            out = own(m)
            for x in walk(tbf.body(m)):
                if x.get("k") in ("CallExpr", "CXXMemberCallExpr") and tbf.callee_name(x) in byname:
                    b_ = tbf.call_base(x)
                    if b_ is None or strip(b_).get("k") == "CXXThisExpr":
                        for g_ in byname[tbf.callee_name(x)]:
                            if g_["kind"] not in ("CXXConstructor", "CXXDestructor") and len(g_["params"]) == len(tbf.call_args(x)):
                                out |= closure(g_, seen, depth + 1)
            return out

        def delegates(m):
            t = facts.ntext(tbf.body(m)).replace(" ", "")
            return "(*this)=" + cls in t or "*this=" + cls in t
        written = {}
        for m in methods:
            for f_ in own(m):
                if f_ in extra:
                    written.setdefault(f_, m)
        reinit = [m for m in methods if m["kind"] not in ("CXXConstructor", "CXXDestructor")
                  and any(x.get("k") in ("CallExpr", "CXXMemberCallExpr") and tbf.callee_name(x) in ("initHeader", "resetBlocksFromSizes") and tbf.call_base(x) is not None and root(tbf.call_base(x)) in blocks for x in walk(tbf.body(m)))]
        readers = {}
        for m in methods:
            for x in walk(tbf.body(m)):
                if x.get("k") in ("MemberExpr", "CXXDependentScopeMemberExpr") and x.get("name") in written and id(m) != id(written[x["name"]]):
                    readers.setdefault(x["name"], m)
        res.instance(R, "%s members" % cls, facts.loc(cl[0]) if cl[0].get("l") else cls, "memory blocks %s; other data members %s; %d constructors, re-initialising functions %s"
                     % (sorted(blocks), extra or "none", len(ctors), [m["name"] for m in reinit] or "none"))
        n += 1
        for f_, w in sorted(written.items()):
            for m in ctors + reinit:
                if f_ in closure(m) or (m["kind"] == "CXXConstructor" and delegates(m)):
                    continue
                rd = readers.get(f_)
                what = "constructor %s(%s)" % (cls, ", ".join(p["t"] for p in m["params"])[:80]) if m["kind"] == "CXXConstructor" else "%s()" % m["name"]
                res.violation(R, tbf.rel(facts.path_of(m)), m["qname"], "unestablished:%s@%d" % (f_, m["l"][1]), m["l"][1],
                              "%s does not establish the member '%s', which %s (%s) derives from the buffer%s: a container obtained this way over a byte copy of the buffers answers from the member's default value, not from the buffer - the copy is no longer an equivalent view"
                              % (what, f_, w["name"] + "()" if w["kind"] != "CXXConstructor" else "another constructor", facts.loc(w), (" and %s() reads" % rd["name"]) if rd else ""))
    return n


CONST_FEED_TU = None


def const_feed_witness(res, tier, R="C14.3.const-feed"):
    """the feed of the raw-memory constructors - getDataPtrsAndSizes() - exists in a const overload: a group reached through a const
    reference (every group of a const tree) must be able to publish its (pointer, size) pairs too.  Compile witness: both container
    kinds, called through a const reference; each returned array has one pair per buffer (3 / 2) and a pair's pointer is to const bytes."""
    import witness
    tu = witness.HEADERS + """
#include <type_traits>
using RealType = double;
template <class GroupClass> auto feed(const GroupClass& inGroup){ return inGroup.getDataPtrsAndSizes(); }
void witnessConstFeed(const TbfCellsContainer<RealType, std::array<RealType,2>, std::array<RealType,3>>& inCells,
                      const TbfParticlesContainer<RealType, RealType, 4, RealType, 2>& inParticles){
    auto c = feed(inCells);
    auto p = feed(inParticles);
    static_assert(std::tuple_size<decltype(c)>::value == 3, "cells: data, multipole, local");
    static_assert(std::tuple_size<decltype(p)>::value == 2, "particles: data, rhs");
    static_assert(std::is_same<decltype(c[0].first), const unsigned char*>::value, "const group publishes const bytes");
    static_assert(std::is_same<decltype(p[0].first), const unsigned char*>::value, "const group publishes const bytes");
}
"""
    for comp in (("g++",) if tier == "quick" else ("g++", "clang++")):
        rc, err = tbf.compile_witness(tu, compiler=comp, name="c14_const_feed.cpp", max_errors=6)
        res.instance(R, comp, "witness:c14_const_feed", "getDataPtrsAndSizes() const on a cell group and a particle group: rc=%d" % rc)
        if rc != 0:
            f, line, msg, _ = witness.first_src_error(err)
            res.violation(R, f, "<witness c14_const_feed>", "%s:%d" % (f, line), line, "the const overload of getDataPtrsAndSizes() does not compile when used (%s): %s" % (comp, msg[:260]))


def run(res, tier):
    facts = tbf.scan("core")
    res.units.append("umbrella TU 'core': TbfMemoryBlock, 4 block kinds with their viewers, TbfCellsContainer / TbfParticlesContainer raw-memory interface")
    res.rule("C14.1 trailer: writer and reader address polynomials equal; tables adjacent, non-overlapping, ending at the allocation end; allocation = payload + 2 tables; block pointer = base + recorded offset; offsets = running sum")
    res.rule("C14.2 per block kind: every GetLeadingDim site uses the same quantity and alignment; extent = stride x the other quantity; GetLeadingDim rounds up to the alignment")
    res.rule("C14.3 getDataPtrsAndSizes slots = raw-memory constructor slots = get<X>Ptr/Size pairs (thorough: StarPU handle registration)")
    trailer(facts, res)
    strides(facts, res)
    buffer_order(facts, res, tier)
    const_feed_witness(res, tier)
    res.rule("C14.5 the description travels with the buffer: move assignment of TbfMemoryBlock takes every data member from its argument (pointer, size, capacity, table pointers, block pointers, ownership); a member left behind describes the destination's old buffer and the published (pointer, size) no longer matches the allocation")
    import c15
    sub = tbf.Result("C15")
    c15.memoryblock_typestate(facts, sub)
    for i in sub.instances:
        if i["key"] == "move-assignment members":
            res.instance("C14.5.description-travels", i["key"], i["at"], i["detail"])
    if not any(i["key"] == "move-assignment members" for i in sub.instances):
        raise AnalysisBroken("C14.5: move-assignment member facts not produced")
    for v in sub.violations:
        if v["key"].startswith("move:left-behind:"):
            res.violation("C14.5.description-travels", v["file"], v["function"], v["key"], v["line"], v["msg"])
    res.rule("C14.6 views are functions of the buffer: every data member of the cell / particle containers besides the memory blocks is established by every constructor and by every function that re-initialises the block headers (a member cached by one raw-memory constructor only makes the other raw-memory view answer from defaults)")
    n6 = views_from_buffer(facts, res)
    res.floor("C14.6", n6, 2, "container classes")
    import os
    fx6 = os.path.join(tbf.VERIF, "fixtures", "c14_view_members.cpp")
    ff6 = tbf.scan_file(fx6, [], [os.path.join(tbf.VERIF, "fixtures") + os.sep])
    ctl6 = tbf.Result("control")
    views_from_buffer(ff6, ctl6, classes=("View1", "View2"))
    if len(ctl6.violations) != 1 or "View2" not in ctl6.violations[0]["function"]:
        raise AnalysisBroken("positive control fixtures/c14_view_members.cpp: %d of 1 unestablished members reported" % len(ctl6.violations))
    res.instance("C14.6.views-from-buffer", "positive control", "verif:fixtures/c14_view_members.cpp", "1 of 1 seeded constructs reported, the refreshed one silent")
    res.rule("C14.4 no function of the container / group classes converts a buffer pointer into a number (positions inside a buffer depend on its content only, never on its address)")
    n4 = address_independent(facts, res)
    res.floor("C14.4", n4, 100, "container / group functions")
    import os
    fx = os.path.join(tbf.VERIF, "fixtures", "c14_address.cpp")
    ff = tbf.scan_file(fx, [], [os.path.join(tbf.VERIF, "fixtures") + os.sep])
    ctl = tbf.Result("control")
    address_independent(ff, ctl)
    if len(ctl.violations) != 1:
        raise AnalysisBroken("positive control fixtures/c14_address.cpp: %d of 1 pointer-to-integer conversions reported" % len(ctl.violations))
    res.instance("C14.4.address-independent", "positive control", "verif:fixtures/c14_address.cpp", "1 of 1 seeded constructs reported")
