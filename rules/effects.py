"""`effects` engine: which group buffers a wrapper method reads / may write.

Buffers are identified by the *member memory block* of the container class they live in
(objectData / objectMultipole / objectLocal / objectRhs); the accessor -> block map is derived from
the container classes themselves (which member each accessor's body touches), not hard-coded.
"""
import re

import tbf
from tbf import walk, kids, strip, AnalysisBroken

CONTAINERS = ["TbfCellsContainer", "TbfParticlesContainer"]
WRAPPER_CLASS = "TbfGroupKernelInterface"


def container_map(facts):
    """accessor name -> {'fields': set(member block names), 'mutable': bool (a non-const overload
    returning something other than a value exists)}"""
    out = {}
    for cls in CONTAINERS:
        c = facts.cls(cls)
        blocks = set(f["name"] for f in c["fields"] if "MemoryBlock" in f["t"])
        if not blocks:
            raise AnalysisBroken("no memory-block members found in " + cls)
        # members that cache addresses inside a block (row bases, ...): reading one is using the block it was filled from
        cache_of = {}
        others = set(f["name"] for f in c["fields"]) - blocks
        if others:
            for fn in facts.methods_of(cls):
                b0 = tbf.body(fn)
                if b0 is None:
                    continue
                dl = {v["did"]: v for v in walk(b0) if v.get("k") == "VarDecl"}

                def blocks_in(e, depth=0):
                    out_ = set()
                    for z in walk(e):
                        if z.get("k") == "MemberExpr" and z.get("name") in blocks:
                            out_.add(z["name"])
                        elif z.get("k") == "DeclRefExpr" and z.get("did") in dl and kids(dl[z["did"]]) and depth < 3:
                            out_ |= blocks_in(kids(dl[z["did"]])[0], depth + 1)
                    return out_
                for x in walk(b0):
                    if x.get("k") == "BinaryOperator" and x.get("op") == "=":
                        l = strip(kids(x)[0])
                        while l.get("k") in ("ArraySubscriptExpr", "CXXOperatorCallExpr") and len(kids(l)) >= 2:
                            l = strip(kids(l)[-2])
                        if l.get("k") == "MemberExpr" and l.get("name") in others:
                            bs = blocks_in(kids(x)[1])
                            if bs:
                                cache_of.setdefault(l["name"], set()).update(bs)
        for fn in facts.methods_of(cls):
            if fn["kind"] != "CXXMethod":
                continue
            used = set()
            wused = set()
            b = tbf.body(fn)
            tbf.link_parents(b)
            for x in walk(b):
                if x.get("k") == "MemberExpr" and x.get("name") in cache_of and not any(a_.get("k") == "BinaryOperator" and a_.get("op") == "=" and any(z is x for z in walk(kids(a_)[0])) for a_ in tbf.ancestors(x)):
                    used |= cache_of[x["name"]]
                    if not fn.get("const"):
                        wused |= cache_of[x["name"]]
                if x.get("k") == "MemberExpr" and x.get("name") in blocks:
                    used.add(x["name"])
                    par = x.get("_p")
                    while par is not None and par.get("k") in ("ImplicitCastExpr", "ParenExpr"):
                        par = par.get("_p")
                    how = (par or {}).get("name", "")
                    if not fn.get("const") and how not in ("getViewerForBlockConst", "isEmpty", "getAllocatedMemorySizeInByte"):
                        wused.add(x["name"])
            if not used:
                continue
            e = out.setdefault(fn["name"], {"fields": set(), "wfields": set(), "mutable": False, "cls": set()})
            e["fields"] |= used
            e["wfields"] |= wused
            e["cls"].add(cls)
            if not fn.get("const"):
                ret = fn.get("ret", "")
                if "*" in ret or "&" in ret or "DataType *" in ret or "RhsType *" in ret or ret == "auto":
                    e["mutable"] = True
    return out


def ptr_accessor_field(cmap, name):
    """field behind a get<X>Ptr() accessor"""
    e = cmap.get(name)
    if not e or len(e["fields"]) != 1:
        raise AnalysisBroken("accessor %s does not map to exactly one memory block" % name)
    return next(iter(e["fields"]))


def wrapper_effects(facts, cmap=None):
    """wrapper method -> {'params': [None | {field: 'R'|'W'}], 'kernel_ops': [...], 'slots': [...]}.
    Effects are derived from what each wrapper hands to the kernel operators, slot by slot
    (coherence.SlotResolver), read against the frozen operator role table: the buffers behind an
    operator's *output* slot are written, everything else handed to it is read."""
    import coherence
    cmap = cmap or container_map(facts)
    out = {}
    for fn, sr, call, op, slots in coherence.wrapper_kernel_calls(facts, cmap):
        roles = coherence.ROLES[op]
        if len(slots) != len(roles):
            raise AnalysisBroken("%s: kernel.%s called with %d arguments, operator interface has %d" % (facts.loc(call), op, len(slots), len(roles)))
        m = out.setdefault(fn["name"], {"params": [None] * len(fn["params"]), "kernel_ops": [], "fn": fn,
                                        "pnames": [p["name"] for p in fn["params"]], "calls": []})
        if op not in m["kernel_ops"]:
            m["kernel_ops"].append(op)
        m["calls"].append((call, op, slots, sr))
        for (role, part, io), s in zip(roles, slots):
            accs = [s] if s["kind"] == "acc" else (s["elems"] if s["kind"] == "vec" else [])
            for a in accs:
                if a.get("kind") != "acc":
                    continue
                g = re.match(r"^param(\d+)$", a["group"])
                if not g:
                    raise AnalysisBroken("%s: slot fed from '%s', not from a group parameter" % (facts.loc(call), a["group"]))
                gi = int(g.group(1))
                e = m["params"][gi]
                if e is None:
                    e = m["params"][gi] = {}
                if io == "out":
                    for f in a["wfields"]:
                        e[f] = "W"
                    for f in a["fields"]:
                        e.setdefault(f, "R")
                else:
                    for f in a["fields"]:
                        e.setdefault(f, "R")
    if len(out) < 10:
        raise AnalysisBroken("only %d wrapper methods with kernel calls found in %s (10 confirmed by reading)" % (len(out), WRAPPER_CLASS))
    return out


def written_fields(weff):
    w = set()
    for m in weff.values():
        for e in m["params"]:
            if e:
                w |= set(f for f, mode in e.items() if mode == "W")
    return w
