"""OpenMP task rules shared by C03 / C09 / C15 (capture lifetime, per-worker kernel, join).

Works on template *patterns* exported by tbfscan: every `#pragma omp task` with its clauses and
captured body is a first-class node.
"""
import tbf
from tbf import walk, kids, strip, AnalysisBroken

VAR_KINDS = ("Var", "ParmVar", "Binding", "Decomposition")


def declared_in(n):
    """decl ids declared inside subtree n (locals, lambda params)"""
    out = set()
    for x in walk(n):
        if x.get("k") in ("VarDecl", "ParmVarDecl"):
            out.add(x["did"])
    return out


def find_tasks(facts, fn):
    """all task directives in a function, with parent links set"""
    b = tbf.body(fn)
    if b is None:
        return []
    tbf.link_parents(b)
    return [x for x in walk(b) if x.get("k") == "OMPTaskDirective"]


def clause_vars(task, clause):
    out = {}
    for cl in task.get("clauses", []):
        if cl.get("clause") == clause:
            for e in kids(cl):
                e = strip(e)
                if e.get("k") == "DeclRefExpr":
                    out[e["did"]] = e["name"]
    return out


def enclosing_lambda(n):
    for a in tbf.ancestors(n):
        if a.get("k") == "LambdaExpr":
            return a
    return None


def var_decl_nodes(fn):
    """did -> VarDecl/ParmVarDecl node for everything declared in fn (params included)"""
    out = {}
    for p in fn.get("params", []):
        out[p["did"]] = p
    b = tbf.body(fn)
    for x in walk(b):
        if x.get("k") in ("VarDecl", "ParmVarDecl"):
            out[x["did"]] = x
    return out


def has_join_after(fn, task):
    """the creating function itself joins (taskwait / end of an enclosing parallel region) after the task"""
    for a in tbf.ancestors(task):
        if a.get("k") in ("OMPParallelDirective",):
            return True
    return False


def check_capture_lifetime(facts, fn, res, pid_rule="C03.c"):
    """Rule: a deferred task body may only touch (1) what firstprivate/private copied at creation,
    (2) what it declares itself, (3) `this` when the directive is not inside a lambda, (4) non-local
    storage.  Any other automatic variable is shared by reference (default(shared)) and lives in the
    frame of a stage function / callback that returns before the join in execute(); inside a lambda,
    `this` and outer variables are reached through the closure object, a temporary that is dead when
    the deferred task runs."""
    tasks = find_tasks(facts, fn)
    decls = var_decl_nodes(fn)
    n = 0
    for t in tasks:
        n += 1
        bodyn = kids(t)[0] if kids(t) else None
        if bodyn is None:
            raise AnalysisBroken("task without body at " + facts.loc(t))
        fp = clause_vars(t, "firstprivate")
        pv = clause_vars(t, "private")
        default_shared = any(c.get("clause") == "default" and c.get("defname") == "shared" for c in t["clauses"])
        inside = declared_in(bodyn)
        lam = enclosing_lambda(t)
        lam_decl = declared_in(lam) if lam else set()
        joined_here = has_join_after(fn, t)
        key_fn = fn["qname"]
        where = facts.loc(t)
        byref = {}
        uses_this = False
        for x in walk(bodyn):
            if x.get("k") == "CXXThisExpr":
                uses_this = True
            if x.get("k") == "DeclRefExpr" and x.get("dk") in VAR_KINDS and x.get("local"):
                did = x["did"]
                if did in inside or did in fp or did in pv:
                    continue
                byref.setdefault(did, x)
        detail = "firstprivate=%s byref=%s this=%s in_lambda=%s" % (sorted(fp.values()), sorted(v["name"] for v in byref.values()), uses_this, bool(lam))
        res.instance(pid_rule + ".capture-lifetime", "%s task@%s" % (key_fn, where.split(":")[-1]), where, detail)
        if joined_here:
            continue
        for did, x in sorted(byref.items(), key=lambda kv: kv[1]["name"]):
            d = decls.get(did)
            dtype = (d or {}).get("t", x.get("dtype", ""))
            is_ref = dtype.rstrip().endswith("&")
            if lam is not None and did not in lam_decl:
                res.violation(pid_rule + ".capture-lifetime", tbf.rel(facts.path_of(t)), key_fn, x["name"], t["l"][1],
                              "task created inside a lambda reads outer variable '%s' through the closure object, which is a temporary that is dead when a deferred task runs; copy it with firstprivate" % x["name"])
            elif is_ref and d is not None and d.get("k") == "ParmVarDecl" and lam is None:
                # reference parameter of the stage function: the referee is the caller's object (the tree), alive until the join
                continue
            elif is_ref:
                raise AnalysisBroken("%s: task shares reference variable '%s' whose referee the analyser cannot classify" % (where, x["name"]))
            else:
                res.violation(pid_rule + ".capture-lifetime", tbf.rel(facts.path_of(t)), key_fn, x["name"], t["l"][1],
                              "automatic variable '%s' is shared by reference (not in firstprivate) but its frame ends before the join: a deferred task reads a dead/changed variable" % x["name"])
        if lam is not None and uses_this:
            res.violation(pid_rule + ".capture-lifetime", tbf.rel(facts.path_of(t)), key_fn, "this-through-closure", t["l"][1],
                          "task created inside a lambda accesses members (this) through the closure object, a temporary argument that is dead when a deferred task runs; copy the needed pointers into firstprivate locals")
        if not default_shared and not fp:
            pass
    return n


def check_per_worker_kernel(facts, fn, res, wrapper_member="kernelWrapper", pid_rule="C03.d"):
    """Rule: inside a task every wrapper call receives K[omp_get_thread_num()] as its kernel, with the
    worker-id call evaluated inside the task body (not at creation)."""
    n = 0
    for t in find_tasks(facts, fn):
        bodyn = kids(t)[0]
        for call in walk(bodyn):
            if call.get("k") not in ("CallExpr", "CXXMemberCallExpr"):
                continue
            base = tbf.call_base(call)
            if base is None or strip(base).get("name") != wrapper_member:
                continue
            n += 1
            args = tbf.call_args(call)
            ok = False
            for a in args:
                a = strip(a)
                if a.get("k") in ("ArraySubscriptExpr", "CXXOperatorCallExpr"):
                    idx = kids(a)[-1]
                    if any(tbf.callee_name(c) == "omp_get_thread_num" for c in walk(idx) if c.get("k") == "CallExpr"):
                        ok = True
            res.instance(pid_rule + ".per-worker-kernel", "%s %s" % (fn["qname"], tbf.callee_name(call)), facts.loc(call), facts.ntext(call)[:120])
            if not ok:
                res.violation(pid_rule + ".per-worker-kernel", tbf.rel(facts.path_of(call)), fn["qname"], tbf.callee_name(call) or "?", call["l"][1],
                              "wrapper call inside a task does not select the kernel by the executing worker's id (K[omp_get_thread_num()] evaluated in the task body)")
    return n
