"""`stages` engine: summaries of the executor classes.

For one executor class it extracts, from the template patterns:
  * execute(): the guarded stage calls  (flag -> stage), their order, the join
  * per stage function: P2M/L2P guard, level loop interval (sympy normal form in H and U),
    list-builder calls with literal flags, group-mapper calls, and every wrapper call
    (`kernelWrapper.X(...)`) with an *origin descriptor* per argument.

An origin descriptor is computed from the resolved program by following single-assignment locals,
iterator/pointer wrappers, lambda parameters (to the call that receives the lambda) and accessor
calls; variable names never appear in it, so behaviour-preserving renames / re-bindings do not
change it, while swapping two arguments or taking a group from another level does.
"""
import re

import sympy

import tbf
from tbf import walk, kids, strip, AnalysisBroken

H, U, L = sympy.symbols("H U L", integer=True)

PASS_THROUGH = {"move", "forward", "make_const", "ref", "cref", "as_const"}
FLAG_NAMES = ["TbfP2P", "TbfP2M", "TbfM2M", "TbfM2L", "TbfL2L", "TbfL2P"]
STAGE_OF_FLAG = {"TbfP2P": "P2P", "TbfP2M": "P2M", "TbfM2M": "M2M", "TbfM2L": "M2L", "TbfL2L": "L2L", "TbfL2P": "L2P"}


class FnModel:
    def __init__(self, facts, fn):
        self.facts = facts
        self.fn = fn
        self.body = tbf.body(fn)
        if self.body is None:
            raise AnalysisBroken("no body for " + fn["qname"])
        tbf.link_parents(self.body)
        self.decls = {}
        self.param_index = {}
        for i, p in enumerate(fn.get("params", [])):
            self.decls[p["did"]] = p
            self.param_index[p["did"]] = i
        self.lambda_param = {}   # did -> (lambda node, index)
        self.loop_vars = {}      # did -> ForStmt node
        self.detached_counters = {}   # did -> ForStmt node whose counter is declared before the loop (registered as loop variables once the walk is over)
        self.assigned = {}       # did -> count of plain assignments
        self.range_vars = {}     # did -> range expression of the range-for that declares it
        incremented = []
        for x in walk(self.body):
            k = x.get("k")
            if k == "CXXForRangeStmt" and len(x.get("c", [])) >= 2 and x["c"][0] is not None and x["c"][0].get("k") == "VarDecl" and x["c"][1] is not None:
                self.range_vars[x["c"][0]["did"]] = x["c"][1]
            if k in ("VarDecl", "ParmVarDecl"):
                self.decls[x["did"]] = x
            if k == "LambdaExpr":
                for i, p in enumerate(x.get("params", [])):
                    self.lambda_param[p["did"]] = (x, i)
            if k == "ForStmt":
                init = x["c"][0]
                if init is not None and init.get("k") == "DeclStmt":
                    for v in kids(init):
                        if v.get("k") == "VarDecl":
                            self.loop_vars[v["did"]] = x
                elif init is None and x["c"][1] is not None and x["c"][2] is not None:
                    # `long l = start; for( ; l >= stop ; --l)`: the counter is declared before the loop
                    inc0 = strip(x["c"][2])
                    if inc0.get("k") == "UnaryOperator" and inc0.get("op") in ("++", "--") and strip(kids(inc0)[0]).get("k") == "DeclRefExpr":
                        self.detached_counters[strip(kids(inc0)[0])["did"]] = x
            if k in ("BinaryOperator", "CompoundAssignOperator") and x.get("op") in ("=", "+=", "-="):
                lhs = strip(kids(x)[0])
                if lhs.get("k") == "DeclRefExpr":
                    self.assigned[lhs["did"]] = self.assigned.get(lhs["did"], 0) + 1
            if k == "UnaryOperator" and x.get("op") in ("++", "--"):
                # ++ / -- of an integer counter is an assignment (iterators keep their `it(X)` origin)
                lhs = strip(kids(x)[0])
                if lhs.get("k") == "DeclRefExpr" and re.match(r"^(const )?(unsigned )?(long|int|long int|long long|short|size_t|std::size_t|std::ptrdiff_t|ptrdiff_t)$", lhs.get("t", "").strip()):
                    incremented.append(lhs["did"])

        # a detached counter that nothing but its loop's step modifies is that loop's variable
        for did, f_ in self.detached_counters.items():
            if did in self.decls and kids(self.decls[did]) and not self.assigned.get(did) and incremented.count(did) == 1:
                self.loop_vars[did] = f_
        for did in incremented:
            if did not in self.loop_vars:
                self.assigned[did] = self.assigned.get(did, 0) + 1
        # local arrays defined element-wise exactly once (`A[i] = E(i)` in a loop, nothing else writes A): a hoisted value
        self.elem_defs = {}
        writes = {}
        for x in walk(self.body):
            k = x.get("k")
            if k in ("BinaryOperator", "CompoundAssignOperator") and x.get("op", "").endswith("=") and x.get("op") not in ("==", "!=", "<=", ">="):
                lhs = strip(kids(x)[0])
                if lhs.get("k") in ("ArraySubscriptExpr", "CXXOperatorCallExpr"):
                    b = strip(kids(lhs)[-2])
                    if b.get("k") == "DeclRefExpr":
                        writes.setdefault(b["did"], []).append((x, lhs))
            if k == "UnaryOperator" and x.get("op") in ("++", "--"):
                lhs = strip(kids(x)[0])
                if lhs.get("k") in ("ArraySubscriptExpr", "CXXOperatorCallExpr"):
                    b = strip(kids(lhs)[-2])
                    if b.get("k") == "DeclRefExpr":
                        writes.setdefault(b["did"], []).append((x, None))
        for did, ws in writes.items():
            d = self.decls.get(did)
            if len(ws) == 1 and ws[0][1] is not None and ws[0][0].get("op") == "=" and d is not None and d.get("k") == "VarDecl" and not kids(d) and did not in self.assigned:
                idx = strip(kids(ws[0][1])[-1])
                if idx.get("k") == "DeclRefExpr" and idx.get("did") in self.loop_vars:
                    # every other mention must be a subscripted read: an array handed to a call, resized, iterated ... is not a hoisted value
                    bare = False
                    for y in walk(self.body):
                        if y.get("k") == "DeclRefExpr" and y.get("did") == did:
                            p = y.get("_p")
                            while p is not None and p.get("k") in ("ImplicitCastExpr", "ParenExpr"):
                                p = p.get("_p")
                            if p is None or p.get("k") not in ("ArraySubscriptExpr", "CXXOperatorCallExpr") or (p.get("k") == "CXXOperatorCallExpr" and p.get("op") != "[]"):
                                bare = True
                                break
                    if not bare:
                        self.elem_defs[did] = ws[0][0]
        self.lambda_bind = {}      # param did -> origin of the argument, while a local lambda is expanded at a call site
        self.inline_helpers = {}   # name -> function record: same-class helpers with a single return, inlined into origins (set by the caller)

    # ------------------------------------------------------------------ origins
    def _mod_sites(self):
        if getattr(self, "_mods", None) is None:
            self._mods = {}
            for x in walk(self.body):
                k = x.get("k")
                if (k in ("BinaryOperator", "CompoundAssignOperator") and x.get("op") in ("=", "+=", "-=")) or (k == "UnaryOperator" and x.get("op") in ("++", "--")):
                    lhs = strip(kids(x)[0])
                    if lhs.get("k") == "DeclRefExpr":
                        self._mods.setdefault(lhs["did"], []).append(x)
        return self._mods

    def _exclusive(self, p1, p2):
        """offsets p1 and p2 lie in the two different branches of one if statement: no path runs through both (within one iteration)"""
        if getattr(self, "_ifs", None) is None:
            self._ifs = []
            for x in walk(self.body):
                if x.get("k") == "IfStmt":
                    cc = [y for y in kids(x) if y.get("k") != "DeclStmt"]
                    if len(cc) == 3 and all(c_.get("b") is not None and c_.get("e") is not None for c_ in cc[1:]):
                        self._ifs.append((cc[1]["b"], cc[1]["e"], cc[2]["b"], cc[2]["e"]))
        for tb, te, eb, ee in self._ifs:
            if (tb <= p1 <= te and eb <= p2 <= ee) or (tb <= p2 <= te and eb <= p1 <= ee):
                return True
        return False

    def _loops(self):
        if getattr(self, "_loopnodes", None) is None:
            self._loopnodes = [x for x in walk(self.body) if x.get("k") in ("ForStmt", "WhileStmt", "DoStmt", "CXXForRangeStmt") and x.get("b") is not None and x.get("e") is not None]
        return self._loopnodes

    def origin(self, n, depth=0):
        if depth > 40:
            raise AnalysisBroken("origin recursion too deep at " + self.facts.loc(n))
        n = strip(n)
        if n is None:
            return "?"
        if depth == 0:
            self._use_b = getattr(self, "_use_pin", None) or n.get("b")      # where the value is used: bindings met while expanding it are judged against this point
        k = n.get("k")
        f = self.facts
        if k in ("CXXStaticCastExpr", "CStyleCastExpr", "CXXFunctionalCastExpr", "CXXConstCastExpr", "CXXReinterpretCastExpr"):
            return self.origin(kids(n)[0], depth + 1)
        if k == "IntegerLiteral":
            return str(n["val"])
        if k == "CXXBoolLiteralExpr":
            return "true" if n["val"] else "false"
        if k == "CXXThisExpr":
            return "this"
        if k == "DeclRefExpr":
            dk = n.get("dk")
            if dk == "EnumConstant":
                return n["name"]
            did = n.get("did")
            if did in self.loop_vars:
                d0 = self.decls.get(did)
                if d0 is not None and kids(d0) and not re.search(r"\b(long|int|short|size_t|ptrdiff_t|unsigned)\b", d0.get("t", "")):
                    o0 = self.origin(kids(d0)[0], depth + 1)
                    if o0.startswith(("it(", "end(")):
                        return o0          # for(auto it = X.begin(), end = X.end(); ...): iterators, same descriptors as the while form
                if self.is_level_loop(self.loop_vars[did]):
                    # a loop over levels INSIDE a task body is not the stage's level loop: what it names at each of its iterations is
                    # not what a handle taken outside the task at "the" level names
                    return "Lt" if id(self.loop_vars[did]) in self._task_nodes() else "L"
                return "loopvar"   # (sym() distinguishes loop variables by declaration)
            if did in self.lambda_bind:
                return self.lambda_bind[did]        # parameter of a local lambda being expanded at one of its call sites
            if did in self.range_vars:
                return "each(" + self.origin(self.range_vars[did], depth + 1) + ")"
            if did in self.lambda_param:
                lam, idx = self.lambda_param[did]
                return self.lambda_arg_origin(lam, idx, depth)
            if did in self.param_index:
                d = self.decls[did]
                if "TreeClass" in d.get("t", ""):
                    return "tree"
                return "param%d" % self.param_index[did]
            d = self.decls.get(did)
            if d is None:
                return "global:" + n.get("name", "?")
            if self.assigned.get(did):
                return "mutable:" + n["name"]
            init = kids(d)
            if not init:
                return "local:" + n["name"]
            o_ = self.origin(init[0], depth + 1)
            ub = getattr(self, "_use_b", None) or n.get("b")
            if "mutable:" in o_ and ub is not None and d.get("e") is not None:
                # a const local / reference bound to an expression over a variable that is modified between the binding and this use
                # (textually in between, or inside a loop that encloses the use but not the binding) names the OLD value: `r = A[i]`
                # followed by `for(; i < e; ++i) f(r, A[i])` hands f two different elements although both read `A[i]`
                for y in walk(init[0]):
                    if y.get("k") == "DeclRefExpr" and self.assigned.get(y.get("did")):
                        stale = False
                        for m_ in self._mod_sites().get(y["did"], []):
                            if m_.get("b") is None:
                                continue
                            if d["e"] < m_["b"] and m_.get("e", m_["b"]) < ub and not self._exclusive(m_["b"], ub):
                                stale = True          # (an assignment whose right-hand side IS this use has not happened yet)
                            for L_ in self._loops():
                                if L_["b"] <= m_["b"] <= L_["e"] and L_["b"] <= ub <= L_["e"] and not (L_["b"] <= d["b"] <= L_["e"]) and not (m_["b"] <= ub <= m_.get("e", m_["b"])):
                                    stale = True
                        if stale:
                            # (`@old`: the value at an earlier binding; no line number, sibling functions are compared by these texts)
                            o_ = re.sub(r"mutable:%s(?![\w@])" % re.escape(y["name"]), "mutable:%s@old" % y["name"], o_)
            return o_
        if k == "MemberExpr":
            base = kids(n)
            if n.get("implicitthis") or (base and strip(base[0]).get("k") == "CXXThisExpr"):
                return "this." + n["name"]
            return self.origin(base[0], depth + 1) + "." + n["name"]
        if k == "CXXDependentScopeMemberExpr":
            base = kids(n)
            if not base:
                return "this." + n["name"]
            return self.origin(base[0], depth + 1) + "." + n["name"]
        if k == "UnaryOperator":
            op = n.get("op")
            sub = self.origin(kids(n)[0], depth + 1)
            if op == "*":
                if sub.startswith("&"):
                    return sub[1:]
                m = re.match(r"^it\((.*)\)$", sub)
                if m:
                    return "each(" + m.group(1) + ")"
                return "*" + sub
            if op == "&":
                if sub.startswith("*"):
                    return sub[1:]
                return "&" + sub
            if op == "-":
                return "-" + sub
            if op == "!":
                m = re.match(r"^\((.*)(<=|<|==|!=)(.*)\)$", sub)
                if m and _balanced_outer(sub) and _top_level_op(sub, m.group(2)):
                    a0, o0, b0 = _split_top(sub, m.group(2))
                    if o0 == "<":
                        return "(" + b0 + "<=" + a0 + ")"
                    if o0 == "<=":
                        return "(" + b0 + "<" + a0 + ")"
                    return "(" + a0 + ("!=" if o0 == "==" else "==") + b0 + ")"
                if sub.startswith("!") and not sub.startswith("!="):
                    return sub[1:]
            return op + sub
        if k == "BinaryOperator":
            a, b = kids(n)
            oa, ob, op = self.origin(a, depth + 1), self.origin(b, depth + 1), n.get("op")
            # one spelling per comparison: only < and <= ; emptiness tests as X.empty() / !X.empty()
            if op in (">", ">="):
                oa, ob, op = ob, oa, {">": "<", ">=": "<="}[op]
            for x, y in ((oa, ob), (ob, oa)):
                if y == "0" and x.endswith(".size()"):
                    if op == "==":
                        return x[:-len(".size()")] + ".empty()"
                    if op == "!=" or (op == "<" and x is ob):
                        return "!" + x[:-len(".size()")] + ".empty()"
            return "(" + oa + op + ob + ")"
        if k in ("ArraySubscriptExpr",):
            a, b = kids(n)
            sa = strip(a)
            if sa.get("k") == "DeclRefExpr" and sa.get("did") in self.elem_defs and not self._is_def_lhs(n):
                return self.origin(kids(self.elem_defs[sa["did"]])[1], depth + 1)
            return self.origin(a, depth + 1) + "[" + self.origin(b, depth + 1) + "]"
        if k == "CXXOperatorCallExpr":
            c = kids(n)
            op = n.get("op")
            if op == "[]":
                sa = strip(c[1])
                if sa.get("k") == "DeclRefExpr" and sa.get("did") in self.elem_defs and not self._is_def_lhs(n):
                    return self.origin(kids(self.elem_defs[sa["did"]])[1], depth + 1)
                return self.origin(c[1], depth + 1) + "[" + self.origin(c[2], depth + 1) + "]"
            if op == "*" and len(c) == 2:
                sub = self.origin(c[1], depth + 1)
                m = re.match(r"^it\((.*)\)$", sub)
                if m:
                    return "each(" + m.group(1) + ")"
                if sub.startswith("&"):
                    return sub[1:]
                return "*" + sub
            return "op" + str(op) + "(" + ",".join(self.origin(x, depth + 1) for x in c[1:]) + ")"
        if k in ("CallExpr", "CXXMemberCallExpr"):
            c = kids(n)
            callee = strip(c[0])
            args = c[1:]
            name = callee.get("name")
            if "callee" in n:
                name = n["callee"].split("::")[-1]
            ck = callee.get("k")
            if ck in ("CXXDependentScopeMemberExpr", "MemberExpr", "UnresolvedMemberExpr"):
                b = kids(callee)
                base = self.origin(b[0], depth + 1) if b else "this"
                if callee.get("arrow") and b:
                    base = base[1:] if base.startswith("&") else "*" + base
                if name in ("begin", "cbegin"):
                    return "it(" + base + ")"
                if name in ("end", "cend"):
                    return "end(" + base + ")"
                if name in ("toStdVector", "get"):
                    return base
                if name == "getTreeHeight":
                    return "H"
                if name in self.inline_helpers and base in ("this", "*this") and len(self.inline_helpers[name]["params"]) == len(args):
                    return self._inline(self.inline_helpers[name], args, depth)
                return base + "." + name + "(" + ",".join(self.origin(a, depth + 1) for a in args) + ")"
            if name in self.inline_helpers and len(self.inline_helpers[name]["params"]) == len(args):
                return self._inline(self.inline_helpers[name], args, depth)
            # free function
            if name == "CreateNew" and len(args) == 1:
                return "&" + self.origin(args[0], depth + 1)    # heap copy: *CreateNew(x) is x
            if name in PASS_THROUGH and len(args) >= 1:
                return self.origin(args[0], depth + 1)
            if name in ("omp_get_thread_num", "GetThreadId", "starpu_worker_get_id"):
                return "wid"
            q = callee.get("qual", "")
            if name == "size" and len(args) == 1:
                return self.origin(args[0], depth + 1) + ".size()"
            return q + str(name) + "(" + ",".join(self.origin(a, depth + 1) for a in args) + ")"
        if k == "ParenListExpr":
            return "ctor(" + ",".join(self.origin(a, depth + 1) for a in kids(n)) + ")"
        if k == "CXXUnresolvedConstructExpr" or k == "CXXConstructExpr" or k == "CXXTemporaryObjectExpr":
            c = kids(n)
            if len(c) == 1:
                return self.origin(c[0], depth + 1)
            return "ctor(" + ",".join(self.origin(a, depth + 1) for a in c) + ")"
        if k == "LambdaExpr":
            return "lambda@%d" % n["l"][1]
        if k == "InitListExpr":
            return "{" + ",".join(self.origin(a, depth + 1) for a in kids(n)) + "}"
        return "?" + k

    def _is_def_lhs(self, n):
        p = n.get("_p")
        while p is not None and p.get("k") in ("ParenExpr", "ImplicitCastExpr"):
            n, p = p, p.get("_p")
        return p is not None and any(p is d for d in self.elem_defs.values()) and strip(kids(p)[0]) is strip(n)

    def _inline(self, g, args, depth):
        rs = [r for r in walk(tbf.body(g)) if r.get("k") == "ReturnStmt" and kids(r)]
        sub = FnModel(self.facts, g)
        o = sub.origin(kids(rs[0])[0], depth + 1)
        amap = {"param%d" % i: self.origin(a, depth + 1) for i, a in enumerate(args)}
        o = re.sub(r"\bparam(\d+)\b", lambda m: amap.get(m.group(0), m.group(0)), o)
        return o if (o.startswith("(") and _balanced_outer(o)) else "(" + o + ")"

    def cond_origin(self, n):
        """origin of an expression used as a condition: bare `X.size()` means non-empty"""
        o = self.origin(n)
        if o.endswith(".size()") and not o.startswith("("):
            return "!" + o[:-len(".size()")] + ".empty()"
        return o

    def is_level_loop(self, forstmt):
        """the loop's start or bound is the upper working level or derived from the tree height, directly or through
        single-assignment locals (`const long int leafLevel = configuration.getTreeHeight()-1;`)"""
        def mentions(n, depth=0):
            if n is None or depth > 6:
                return False
            txt = self.facts.ntext(n)
            if "stopUpperLevel" in txt or "getTreeHeight" in txt:
                return True
            for x in walk(n):
                if x.get("k") == "DeclRefExpr" and x.get("dk") == "Var" and x.get("did") not in self.loop_vars and x.get("did") not in self.assigned:
                    d = self.decls.get(x.get("did"))
                    if d is not None and d.get("k") == "VarDecl" and kids(d) and mentions(kids(d)[0], depth + 1):
                        return True
            return False
        return any(mentions(x) for x in forstmt["c"][:2] if x)

    def lambda_arg_origin(self, lam, idx, depth):
        """parameter idx of a lambda that is an argument of a call: described by that call"""
        call = None
        for a in tbf.ancestors(lam):
            if a.get("k") in ("CallExpr", "CXXMemberCallExpr"):
                call = a
                break
            if a.get("k") in ("CompoundStmt", "DeclStmt"):
                break
        if call is None:
            return "lambdaparam%d" % idx
        return "cb%d{%s}" % (idx, self.call_descr(call, skip=lam, depth=depth))

    def call_descr(self, call, skip=None, depth=0):
        c = kids(call)
        callee = strip(c[0])
        name = callee.get("name") or (call.get("callee") or "?").split("::")[-1]
        parts = []
        for a in c[1:]:
            if strip(a) is skip or a is skip:
                continue
            parts.append(self.list_origin(a, call, depth + 1))
        return name + "(" + ",".join(parts) + ")"

    def list_origin(self, arg, at_stmt, depth=0):
        """origin of an index-list argument, including the `.insert(end, A.begin(), A.end())` merges that
        precede the use in the same function (target/source executors merge lists before mapping)"""
        base = self.origin(arg, depth)
        root = self.root_var(arg)
        if root is None:
            return base
        merged = []
        for x in walk(self.body):
            if x.get("k") not in ("CallExpr", "CXXMemberCallExpr"):
                continue
            c = kids(x)
            callee = strip(c[0])
            if callee.get("name") != "insert" or callee.get("k") != "CXXDependentScopeMemberExpr":
                continue
            tgt = kids(callee)
            if not tgt:
                continue
            if self.origin(tgt[0], depth + 1) != base:
                continue
            if x["l"][1] > at_stmt["l"][1]:
                continue
            srcs = c[2:]
            if len(srcs) == 2:
                o = self.origin(srcs[0], depth + 1)
                m = re.match(r"^it\((.*)\)$", o)
                merged.append(m.group(1) if m else o)
        if merged:
            return base + "+merge[" + "|".join(sorted(merged)) + "]"
        return base

    def root_var(self, n):
        n = strip(n)
        while n is not None:
            k = n.get("k")
            if k == "DeclRefExpr":
                return n.get("did")
            ch = kids(n)
            if k in ("CallExpr", "CXXMemberCallExpr"):
                callee = strip(ch[0])
                if callee.get("name") in PASS_THROUGH and len(ch) > 1:
                    n = strip(ch[1])
                    continue
                return None
            if k in ("CXXDependentScopeMemberExpr", "MemberExpr", "UnaryOperator") and ch:
                n = strip(ch[0])
                continue
            return None
        return None

    # ------------------------------------------------------------------ symbolic integers
    def sym(self, n):
        n = strip(n)
        k = n.get("k")
        if k == "IntegerLiteral":
            return sympy.Integer(n["val"])
        if k in ("CXXStaticCastExpr", "CStyleCastExpr", "CXXFunctionalCastExpr"):
            return self.sym(kids(n)[0])
        if k == "BinaryOperator" and n.get("op") in ("+", "-", "*"):
            a, b = [self.sym(x) for x in kids(n)]
            return {"+": a + b, "-": a - b, "*": a * b}[n["op"]]
        if k == "UnaryOperator" and n.get("op") == "-":
            return -self.sym(kids(n)[0])
        if k == "DeclRefExpr" and n.get("did") in self.loop_vars and not self.is_level_loop(self.loop_vars[n["did"]]):
            return sympy.Symbol("<loop%d>" % n["did"], integer=True)
        if k == "DeclRefExpr" and n.get("dk") == "Var" and n.get("did") not in self.loop_vars and n.get("did") not in self.assigned and n.get("did") not in self.lambda_bind:
            d = self.decls.get(n.get("did"))
            if d is not None and d.get("k") == "VarDecl" and len(kids(d)) == 1 and re.search(r"\b(long|int|short|size_t|ptrdiff_t|unsigned)\b", d.get("t", "")):
                i0 = strip(kids(d)[0])
                if i0.get("k") in ("BinaryOperator", "IntegerLiteral", "UnaryOperator", "CXXStaticCastExpr", "CStyleCastExpr", "CXXFunctionalCastExpr"):
                    return self.sym(i0)      # an integer local defined once by an arithmetic expression: its value
        o = self.origin(n)
        if o == "H":
            return H
        if o == "this.stopUpperLevel":
            return U
        if o == "L":
            return L
        if re.match(r"^-?\d+$", o):
            return sympy.Integer(int(o))
        return sympy.Symbol("<" + o + ">", integer=True)

    def _task_nodes(self):
        if getattr(self, "_tn", None) is None:
            self._tn = set()
            for x in walk(self.body):
                if x.get("k") == "OMPTaskDirective":
                    for y in walk(x):
                        if y is not x:
                            self._tn.add(id(y))
        return self._tn

    def loop_interval(self, forstmt):
        """(lo, hi, direction) of a for loop with a single induction variable"""
        init, cond, inc, _body = forstmt["c"]
        if init is None and cond is not None and inc is not None:
            dc = [d for d, f_ in self.detached_counters.items() if f_ is forstmt and d in self.decls and kids(self.decls[d])]
            if len(dc) == 1:
                init = {"k": "DeclStmt", "c": [self.decls[dc[0]]]}
        if init is None or cond is None or inc is None:
            raise AnalysisBroken("for loop without init/cond/inc at " + self.facts.loc(forstmt))
        v = [x for x in kids(init) if x.get("k") == "VarDecl"]
        if len(v) != 1 or not kids(v[0]):
            raise AnalysisBroken("unrecognised loop init at " + self.facts.loc(forstmt))
        var = v[0]["did"]
        start = self.sym(kids(v[0])[0])
        cond = strip(cond)
        if cond.get("k") != "BinaryOperator" or cond.get("op") not in ("<", "<=", ">", ">=", "!="):
            raise AnalysisBroken("unrecognised loop condition at " + self.facts.loc(forstmt))
        a, b = kids(cond)
        op = cond["op"]
        if strip(a).get("did") == var:
            bound = self.sym(b)
        elif strip(b).get("did") == var:
            bound = self.sym(a)
            op = {"<": ">", "<=": ">=", ">": "<", ">=": "<=", "!=": "!="}[op]
        else:
            raise AnalysisBroken("loop condition does not test the induction variable at " + self.facts.loc(forstmt))
        inc = strip(inc)
        step = None
        if inc.get("k") == "UnaryOperator" and inc.get("op") in ("++", "--") and strip(kids(inc)[0]).get("did") == var:
            step = 1 if inc["op"] == "++" else -1
        elif inc.get("k") == "CompoundAssignOperator" and inc.get("op") in ("+=", "-=") and strip(kids(inc)[0]).get("did") == var:
            s = self.sym(kids(inc)[1])
            if s == 1:
                step = 1 if inc["op"] == "+=" else -1
        if step is None:
            raise AnalysisBroken("unrecognised loop step at " + self.facts.loc(forstmt))
        if step == 1:
            if op == "<":
                return start, bound - 1, "up"
            if op == "<=":
                return start, bound, "up"
        else:
            if op == ">":
                return bound + 1, start, "down"
            if op == ">=":
                return bound, start, "down"
        raise AnalysisBroken("loop direction and comparison disagree at " + self.facts.loc(forstmt))


def _split_top(o, op):
    """(lhs, op, rhs) of the outermost binary expression `(lhs op rhs)`; None when op is not at nesting depth 1"""
    d = 0
    i = 0
    while i < len(o):
        ch = o[i]
        if ch == "(":
            d += 1
        elif ch == ")":
            d -= 1
        elif d == 1 and o.startswith(op, i) and not (op == "<" and o.startswith("<=", i)) and not (op == "<" and o.startswith("<<", i)) and not (i > 0 and o[i - 1] in "<>=!" and op in ("=", "==")):
            return o[1:i], op, o[i + len(op):-1]
        i += 1
    return None


def _top_level_op(o, op):
    return _split_top(o, op) is not None


def _balanced_outer(o):
    """the first '(' closes at the last character"""
    d = 0
    for i, ch in enumerate(o):
        if ch == "(":
            d += 1
        elif ch == ")":
            d -= 1
            if d == 0:
                return i == len(o) - 1
    return False


def normK(s):
    """all spellings of 'the kernel of the executing worker' -> K"""
    s = re.sub(r"this\.kernels\.data\(\)\[wid\]", "K", s)
    s = re.sub(r"this\.kernels\[\(wid-1\)\]", "K", s)
    s = re.sub(r"this\.kernels\[wid\]", "K", s)
    s = re.sub(r"^this\.kernel$", "K", s)
    return s


class ExecutorSummary:
    """flag->stage map, order, and per-stage wrapper-call summaries of one executor class"""

    def __init__(self, facts, cls, wrapper="kernelWrapper"):
        self.facts = facts
        self.cls = cls
        self.wrapper = wrapper
        ms = facts.methods_of(cls)
        if not ms:
            raise AnalysisBroken("executor class %s not found" % cls)
        self.methods = {}
        for m in ms:
            self.methods.setdefault(m["name"], []).append(m)
        if "execute" not in self.methods or len(self.methods["execute"]) != 1:
            raise AnalysisBroken("%s::execute not found (or overloaded)" % cls)
        self.execute = self.methods["execute"][0]
        self.guarded = []   # (flag, stage method name, if-node)
        self.unguarded = []
        self._scan_execute()
        self.stages = {}
        for flag, stage, _n in self.guarded:
            if stage in self.methods and stage not in self.stages:
                if len(self.methods[stage]) != 1:
                    raise AnalysisBroken("%s::%s overloaded" % (cls, stage))
                self.stages[stage] = StageSummary(self, self.methods[stage][0])
        for stage in self.unguarded:
            if stage in self.methods and stage not in self.stages:
                self.stages[stage] = StageSummary(self, self.methods[stage][0])

    def _scan_execute(self):
        fm = FnModel(self.facts, self.execute)
        self.exec_model = fm
        flagparam = None
        for p in self.execute["params"]:
            if p["t"].replace("const ", "") in ("int", "long"):
                flagparam = p["did"]
        self.flagparam = flagparam
        stage_names = set(self.methods) - {"execute"}
        seen_calls = set()
        for x in walk(fm.body):
            if x.get("k") == "IfStmt":
                cond = strip(x["c"][0])
                flags = self._flags_of_cond(cond, fm)
                if flags is None:
                    continue
                calls = [c for c in walk(x["c"][1]) if c.get("k") in ("CallExpr", "CXXMemberCallExpr") and self._self_call(c) in stage_names]
                for c in calls:
                    seen_calls.add(id(c))
                    self.guarded.append((flags, self._self_call(c), x))
        for c in walk(fm.body):
            if c.get("k") in ("CallExpr", "CXXMemberCallExpr") and id(c) not in seen_calls:
                nm = self._self_call(c)
                if nm in stage_names and nm in STAGE_OF_FLAG.values():
                    self.unguarded.append(nm)

    def _self_call(self, c):
        callee = strip(kids(c)[0])
        if callee.get("k") in ("UnresolvedMemberExpr", "MemberExpr") and (callee.get("implicitthis") or not kids(callee)):
            return callee.get("name")
        if callee.get("k") == "UnresolvedLookupExpr" and not callee.get("qual"):
            return callee.get("name")
        return None

    def _flag_term(self, e, env, depth=0):
        """normal form of a flag test: ("flags",) | ("enum", name) | ("test", name) for `flags & name` (possibly `!= 0`, possibly through a
        one-expression helper function whose parameters are bound to the arguments) | None"""
        e = strip(e)
        k = e.get("k")
        if depth > 4:
            return None
        if k == "DeclRefExpr":
            if e.get("did") in env:
                return env[e["did"]]
            if e.get("did") == self.flagparam:
                return ("flags",)
            if e.get("dk") == "EnumConstant":
                return ("enum", e["name"])
            return None
        if k == "IntegerLiteral":
            return ("int", int(e["val"]))
        if k in ("CXXStaticCastExpr", "CStyleCastExpr", "CXXFunctionalCastExpr", "ImplicitCastExpr") and len(kids(e)) == 1:
            return self._flag_term(kids(e)[0], env, depth)
        if k == "BinaryOperator" and e.get("op") == "&":
            a, b = [self._flag_term(x, env, depth) for x in kids(e)]
            for p, q in ((a, b), (b, a)):
                if p == ("flags",) and q is not None and q[0] == "enum":
                    return ("test", q[1])
            return None
        if k == "BinaryOperator" and e.get("op") in ("!=", "=="):
            a, b = [self._flag_term(x, env, depth) for x in kids(e)]
            for p, q in ((a, b), (b, a)):
                if p is not None and p[0] == "test" and ((e["op"] == "!=" and q == ("int", 0)) or (e["op"] == "==" and q == ("enum", p[1]))):
                    return p           # (flags & X) != 0  /  (flags & X) == X for a single enumerator
            return None
        if k in ("CallExpr",):
            nm = tbf.callee_name(e)
            args = tbf.call_args(e)
            cands = [g for g in self.facts.functions if g["name"] == nm and not g.get("cls") and not g.get("inst") and tbf.body(g) is not None and len(g["params"]) == len(args)]
            if len(cands) == 1:
                st = [x for x in kids(tbf.body(cands[0])) if x.get("k") != "NullStmt"]
                if len(st) == 1 and st[0].get("k") == "ReturnStmt" and kids(st[0]):
                    env2 = {p_["did"]: self._flag_term(a_, env, depth + 1) for p_, a_ in zip(cands[0]["params"], args)}
                    if all(v is not None for v in env2.values()):
                        return self._flag_term(kids(st[0])[0], env2, depth + 1)
        return None

    def _flags_of_cond(self, cond, fm):
        """returns a normalised description of an `flags & Enum` condition, or None"""
        ft = self._flag_term(cond, {})
        if ft is not None and ft[0] == "test":
            return ft[1]
        if cond.get("k") == "BinaryOperator" and cond.get("op") == "&":
            a, b = [strip(x) for x in kids(cond)]
            for p, q in ((a, b), (b, a)):
                if p.get("k") == "DeclRefExpr" and p.get("did") == self.flagparam and q.get("k") == "DeclRefExpr" and q.get("dk") == "EnumConstant":
                    return q["name"]
            return "complex:" + self.facts.ntext(cond)
        txt = self.facts.ntext(cond)
        if any(f in txt for f in FLAG_NAMES):
            return "complex:" + txt
        return None


class StageSummary:
    def __init__(self, ex, fn):
        self.ex = ex
        self.fn = fn
        facts = ex.facts
        fm = FnModel(facts, fn)
        self.fm = fm
        self.level_loops = []
        self.guards = []
        self.wrapper_calls = []   # dict(method, args[list of origin strings], node, level(sym or None))
        self.list_calls = []      # origin strings of list-builder calls
        self.mapper_calls = []
        for x in walk(fm.body):
            k = x.get("k")
            if k == "ForStmt" and fm.is_level_loop(x):
                lo, hi, d = fm.loop_interval(x)
                self.level_loops.append({"lo": lo, "hi": hi, "dir": d, "node": x})
            if k == "IfStmt":
                cond = strip(x["c"][0])
                if cond.get("k") == "BinaryOperator" and cond.get("op") in ("<", ">", "<=", ">="):
                    a, b = kids(cond)
                    sa, sb = fm.sym(a), fm.sym(b)
                    if sa.free_symbols | sb.free_symbols <= {H, U} and (sa.free_symbols | sb.free_symbols):
                        op = cond["op"]
                        if op in ("<", "<="):
                            sa, sb = sb, sa
                            op = {"<": ">", "<=": ">="}[op]
                        e_ = sympy.simplify(sa - sb)
                        # `if(C) return;` in front of the stage's work guards it by !C: the same guard as `if(!C){ work }`
                        br = [y for y in x["c"][1:] if y is not None]
                        th = br[0] if br else None
                        th_items = [th] if th is not None and th.get("k") != "CompoundStmt" else (kids(th) if th is not None else [])
                        early = len(br) == 1 and len(th_items) == 1 and th_items[0].get("k") == "ReturnStmt" and not kids(th_items[0])
                        if early:
                            e_, op = sympy.simplify(-e_), {">": ">=", ">=": ">"}[op]
                        self.guards.append({"expr": e_, "op": op, "node": x, "early": early})
            if k in ("CallExpr", "CXXMemberCallExpr"):
                callee = strip(kids(x)[0])
                nm = callee.get("name")
                base = tbf.call_base(x)
                if base is not None:
                    bo = fm.origin(base)
                    if callee.get("arrow"):
                        bo = bo[1:] if bo.startswith("&") else "*" + bo
                    if bo == "this." + ex.wrapper:
                        args = [normK(fm.origin(a)) for a in tbf.call_args(x)]
                        # fix-up: list arguments get merge information
                        largs = []
                        for a, o in zip(tbf.call_args(x), args):
                            largs.append(o)
                        self.wrapper_calls.append({"method": nm, "args": largs, "node": x, "in_task": self._in_task(x), "guarded": self._under_guard(x)})
                if nm in ("getInteractionListForBlock", "getNeighborListForBlock", "getSelfListForBlock"):
                    self.list_calls.append({"name": nm, "descr": fm.origin(x), "node": x})
                if nm in ("TbfMapIndexesAndBlocks", "TbfMapIndexesAndBlocksIndexes"):
                    lam = [a for a in tbf.call_args(x) if strip(a).get("k") == "LambdaExpr"]
                    self.mapper_calls.append({"name": nm, "descr": fm.call_descr(x, skip=strip(lam[0]) if lam else None), "node": x})

    def _in_task(self, n):
        for a in tbf.ancestors(n):
            if a.get("k") == "OMPTaskDirective":
                return a
            if a.get("k") == "LambdaExpr":
                # a lambda handed to a task-graph `.task(...)` call is a task body too
                p = a.get("_p")
                while p is not None and p.get("k") in ("ImplicitCastExpr", "ParenExpr"):
                    p = p.get("_p")
                if p is not None and p.get("k") in ("CallExpr", "CXXMemberCallExpr") and tbf.callee_name(p) == "task":
                    return p
        return None

    def _under_guard(self, n):
        if any(a.get("k") == "IfStmt" and any(a is g["node"] for g in self.guards) for a in tbf.ancestors(n)):
            return True
        # after an early-return guard of an enclosing block
        for g in self.guards:
            if g.get("early"):
                blk = g["node"].get("_p")
                if blk is not None and any(a is blk for a in tbf.ancestors(n)) and (n["l"][1], n.get("b", 0)) > (g["node"]["l"][1], g["node"].get("b", 0)):
                    return True
        return False

    def call_signatures(self):
        """set of (method, tuple(args)) — the submissions of this stage"""
        return sorted(set((c["method"], tuple(c["args"])) for c in self.wrapper_calls))
