"""C07 — the tree is the sorted, partitioned ancestor closure of the occupied leaves.

The invariant itself is established by loops over run-time data and is NOT decided for every occupancy
pattern.  Decided are the structural necessary conditions under which those loops can establish it -
each visible in the shape of the code on every path, each breaking the invariant for some input when
violated:

 C07.1 header = content   a group's recorded first / last index and count are assigned from the first / last element and the
                          size of the very sequence its cells (leaves) are filled from, cell i gets element i, for i over [0, n)
 C07.2 flush discipline   typestate of every index buffer of the tree constructor and rebuild(): nothing is appended to a buffer
                          that was emitted and not cleared (no cell in two groups), no possibly-empty buffer is emitted (no empty
                          group), nothing is left in a buffer at exit (no cell lost), no buffer is emitted twice
 C07.3 block-size bound   in block mode a buffer is emitted as soon as its size equals the tree's block size (member set from the
                          constructor argument); the particle sorter cuts leaves with the same number: groups start at g*S, end
                          at min((g+1)*S, n), there are ceil(n/S) of them
 C07.4 ancestor closure   what is appended at level L is getParentIndex(index of cell i of group g of level L+1) for all groups
                          in order and all i over [0, nbCells) (one-group-per-parent mode: from the first cell whose parent is
                          beyond the previous group), de-duplicated against the value appended last; levels H-2 .. 0 each once;
                          the leaf level has one cell group per particle group holding that group's leaf indices over [0, nbLeaves)
 C07.5 sorted leaves      particles are sorted by their leaf index (std::sort with a comparator on the key the leaves are cut by)
                          before leaves are cut; a new leaf starts exactly when that key differs from the last leaf's
"""
import re

import tbf
import stages
from tbf import walk, kids, strip, AnalysisBroken

LEVEL = "other"
TECHNIQUE = "typestate (buffer flush discipline) + header/content, block-bound, closure and sort-key agreement rules over the clang AST (libTooling)"


def method(facts, cls, name, pred=None):
    ms = [m for m in facts.methods_of(cls) if m["name"] == name and not m.get("inst") and tbf.body(m) is not None and (pred is None or pred(m))]
    if len(ms) != 1:
        raise AnalysisBroken("%s::%s: %d definitions found" % (cls, name, len(ms)))
    return ms[0]


def ctor_of(facts, cls, nparams_min, first_param_not_ptr=True):
    cs = [m for m in facts.methods_of(cls) if m["kind"] == "CXXConstructor" and tbf.body(m) is not None and not m.get("inst") and len(m["params"]) >= nparams_min
          and not any("unsigned char" in p["t"] or "std::pair<unsigned char" in p["t"] for p in m["params"]) and not any(re.match(r"^(const )?%s(<.*>)? ?&&?$" % cls, p["t"]) for p in m["params"])]
    return [tbf.expand_member_helpers(facts, c) for c in cs]      # a constructor whose body was moved into a (re)initialisation method is analysed through it


# ---------------------------------------------------------------------------------------------- C07.2 typestate
class BufferTypestate:
    """states of an index buffer: E empty, D holds cells not yet emitted, F emitted and not cleared"""

    def __init__(self, facts, fn, buf, res, rule):
        self.facts, self.fn, self.buf, self.res, self.rule = facts, fn, buf, res, rule
        self.events = 0
        self.reported = set()

    def viol(self, node, key, msg):
        k = (key, node["l"][1])
        if k in self.reported:
            return
        self.reported.add(k)
        self.res.violation(self.rule, tbf.rel(self.facts.path_of(node)), self.fn["qname"], "%s:%s@%d" % (self.buf["name"], key, node["l"][1]), node["l"][1], msg)

    def is_buf(self, n):
        n = strip(n) if n is not None else None
        while n is not None and n.get("k") in ("CallExpr",) and tbf.callee_name(n) in ("move", "forward") and tbf.call_args(n):
            n = strip(tbf.call_args(n)[0])
        return n is not None and n.get("k") == "DeclRefExpr" and n.get("did") == self.buf["did"]

    def events_in(self, s):
        """(kind, node) in evaluation order (post-order: arguments before the call)"""
        out = []

        def rec(n):
            if n is None or not isinstance(n, dict) or n.get("k") == "LambdaExpr":
                return
            for c in n.get("c", []) or []:
                rec(c)
            k = n.get("k")
            if k in ("CallExpr", "CXXMemberCallExpr"):
                nm = tbf.callee_name(n)
                base = tbf.call_base(n)
                if base is not None and self.is_buf(base):
                    if nm in ("push_back", "emplace_back", "insert"):
                        out.append(("push", n))
                    elif nm == "clear":
                        out.append(("clear", n))
                    elif nm in ("resize", "assign"):
                        out.append(("refill", n))
                elif nm in ("emplace_back", "push_back") and any(self.is_buf(a) for a in tbf.call_args(n)):
                    out.append(("flush", n))
            if k in ("BinaryOperator",) and n.get("op") == "=" and self.is_buf(kids(n)[0]):
                raise AnalysisBroken("%s: buffer '%s' is re-assigned as a whole; the flush discipline cannot be followed" % (self.facts.loc(n), self.buf["name"]))
        rec(s)
        return out

    def size_test(self, cond):
        """'nonempty' / 'empty' when cond is exactly a test of the buffer's size, else None"""
        c = strip(cond)
        if c.get("k") == "BinaryOperator" and c.get("op") in ("&&", "||"):
            # a size test as one conjunct: the then-branch knows the buffer is not empty (the else-branch knows nothing); dually for ||
            subs = [self.size_test(x) for x in kids(c)]
            if c["op"] == "&&" and any(x_ in ("nonempty", "then-nonempty") for x_ in subs):
                return "then-nonempty"
            if c["op"] == "&&" and any(x_ in ("empty", "then-empty") for x_ in subs):
                return "then-empty"
            if c["op"] == "||" and any(x_ in ("empty", "else-nonempty") for x_ in subs):
                return "else-nonempty"
            return None
        t = self.facts.ntext(c).replace("static_cast<longint>", "").replace("std::", "")
        nm = re.escape(self.buf["name"])
        if re.match(r"^\(*(%s\.size\(\)|size\(%s\))\)*$" % (nm, nm), t) or re.match(r"^!%s\.empty\(\)$" % nm, t) or re.match(r"^\(*(%s\.size\(\)|size\(%s\))\)*(!=0|>0)$" % (nm, nm), t) or re.match(r"^0<\(*(%s\.size\(\)|size\(%s\))\)*$" % (nm, nm), t):
            return "nonempty"
        if re.match(r"^%s\.empty\(\)$" % nm, t) or re.match(r"^\(*(%s\.size\(\)|size\(%s\))\)*==0$" % (nm, nm), t) or re.match(r"^!\(*(%s\.size\(\)|size\(%s\))\)*$" % (nm, nm), t):
            return "empty"
        return None

    def apply(self, ev, node, states):
        self.events += 1
        out = set()
        for st in states:
            if ev == "push":
                if st == "F":
                    self.viol(node, "push-after-flush", "cells are appended to '%s' after it was emitted as a group and before it is cleared: the previous group's cells are emitted again (a cell in two groups)" % self.buf["name"])
                out.add("D" if st != "F" else "F")
            elif ev == "flush":
                if st == "E":
                    self.viol(node, "flush-empty", "'%s' can be empty when it is emitted here: an empty group enters the tree" % self.buf["name"])
                if st == "F":
                    self.viol(node, "flush-twice", "'%s' is emitted twice without having been cleared and refilled: a group is duplicated" % self.buf["name"])
                out.add("F")
            elif ev == "clear":
                if st == "D":
                    self.viol(node, "clear-unflushed", "'%s' can hold cells that were not emitted when it is cleared here: they never enter the tree" % self.buf["name"])
                out.add("E")
            elif ev == "refill":
                out.add("D")
        return out

    def exec(self, s, states):
        if s is None or not states:
            return states
        k = s.get("k")
        if k == "CompoundStmt":
            for c in kids(s):
                states = self.exec(c, states)
            return states
        if k == "IfStmt":
            c = s["c"]
            cond, then, els = (c[-3], c[-2], c[-1]) if len(c) >= 3 else (c[0], c[1], None)
            for ev, n in self.events_in(cond):
                states = self.apply(ev, n, states)
            t = self.size_test(cond)
            st_then, st_else = set(states), set(states)
            if t == "nonempty":
                st_then, st_else = states - {"E"}, states & {"E"}
            elif t == "empty":
                st_then, st_else = states & {"E"}, states - {"E"}
            elif t == "then-nonempty":
                st_then = states - {"E"}
            elif t == "then-empty":
                st_then = states & {"E"}
            elif t == "else-nonempty":
                st_else = states - {"E"}
            return self.exec(then, st_then) | (self.exec(els, st_else) if els is not None else st_else)
        if k in ("ForStmt", "WhileStmt", "DoStmt", "CXXForRangeStmt"):
            parts = [x for x in s["c"] if x is not None]
            body = parts[-1] if k != "DoStmt" else parts[0]
            heads = [x for x in parts if x is not body]
            cur = set(states)
            for h in heads[:1]:
                for ev, n in self.events_in(h):
                    cur = self.apply(ev, n, cur)
            seen = set(cur)
            for _ in range(6):
                nxt = self.exec(body, set(seen))
                for h in heads[1:]:
                    for ev, n in self.events_in(h):
                        nxt = self.apply(ev, n, nxt)
                if nxt <= seen:
                    break
                seen |= nxt
            return seen
        if k == "ReturnStmt":
            for ev, n in self.events_in(s):
                states = self.apply(ev, n, states)
            self.at_exit(s, states)
            return set()
        for ev, n in self.events_in(s):
            states = self.apply(ev, n, states)
        return states

    def at_exit(self, node, states):
        if "D" in states:
            self.viol(node, "lost-at-exit", "cells appended to '%s' can still be un-emitted when control leaves here: they never enter the tree" % self.buf["name"])


def scope_of(body, decl):
    """the compound statement a local is declared in (its lifetime)"""
    tbf.link_parents(body)
    p = decl.get("_p")
    while p is not None and p.get("k") != "CompoundStmt":
        p = p.get("_p")
    return p


def flush_discipline(facts, res, fns):
    R = "C07.2.flush-discipline"
    n = 0
    for fn in fns:
        body = tbf.body(fn)
        tbf.link_parents(body)
        bufs = []
        for v in walk(body):
            if v.get("k") == "VarDecl" and "vector" in v.get("t", ""):
                probe = BufferTypestate(facts, fn, v, res, R)
                sc = scope_of(body, v)
                evs = probe.events_in(sc) if sc is not None else []
                # an index buffer is filled locally (push / resize) and handed to a group constructor; a container that is only handed
                # on (the gathered particle array of rebuild()) is not one
                if any(e == "flush" for e, _ in evs) and any(e in ("push", "refill") for e, _ in evs):
                    bufs.append((v, sc))
        for v, sc in bufs:
            ts = BufferTypestate(facts, fn, v, res, R)
            # run over the statements of the scope that follow the declaration
            st = {"E"}
            after = False
            for c in kids(sc):
                if not after:
                    after = any(x is v for x in walk(c))
                    continue
                st = ts.exec(c, st)
            ts.at_exit(sc, st) if False else None
            if "D" in st:
                ts.viol(v, "lost-at-exit", "cells appended to '%s' can still be un-emitted at the end of its scope: they never enter the tree" % v["name"])
            res.instance(R, "%s buffer '%s'" % (fn["qname"], v["name"]), facts.loc(v), "%d push / flush / clear / refill events followed; states at end of scope %s" % (ts.events, sorted(st)))
            n += 1
    res.floor(R, n, 4, "index buffers")


# ---------------------------------------------------------------------------------------------- C07.1 header = content
def field_of_accessor(facts, cls, accessor):
    """the header field an accessor returns: the last member name of its single return expression"""
    ms = [m for m in facts.methods_of(cls) if m["name"] == accessor and not m.get("inst") and tbf.body(m) is not None]
    fs = set()
    for m in ms:
        r = [x for x in walk(tbf.body(m)) if x.get("k") == "ReturnStmt" and kids(x)]
        for x in r:
            e = strip(kids(x)[0])
            if e.get("k") in ("MemberExpr", "CXXDependentScopeMemberExpr") and e.get("name"):
                fs.add(e["name"])
    if len(fs) != 1:
        raise AnalysisBroken("%s::%s: header field not recognised" % (cls, accessor))
    return next(iter(fs))


def header_content(facts, res):
    R = "C07.1.header-content"
    import sibling
    # ---- cell groups
    cls = "TbfCellsContainer"
    cs = [c for c in ctor_of(facts, cls, 2) if len(c["params"]) == 2]
    if len(cs) != 1:
        raise AnalysisBroken("%s: index-sequence constructor not found (%d candidates)" % (cls, len(cs)))
    fn = cs[0]
    fm = stages.FnModel(facts, fn)
    fstart, fend, fnb = (field_of_accessor(facts, cls, a) for a in ("getStartingSpacialIndex", "getEndingSpacialIndex", "getNbCells"))
    assigns = {}
    for x in walk(fm.body):
        if x.get("k") == "BinaryOperator" and x.get("op") == "=":
            l = strip(kids(x)[0])
            if l.get("k") in ("MemberExpr", "CXXDependentScopeMemberExpr") and l.get("name") in (fstart, fend, fnb):
                assigns.setdefault(l["name"], []).append((x, fm.origin(kids(x)[1])))
    size = r"(static_cast<long>\()?(std::)?size\(param0\)\)?|param0\.size\(\)"

    def nonzero(lst):
        return [(x, o) for x, o in lst if o != "0"]
    want = {fstart: (r"^param0\.front\(\)$|^param0\[0\]$|^\*(std::)?begin\(param0\)$|^\*param0\.begin\(\)$", "the first element of the index sequence"),
            fend: (r"^param0\.back\(\)$|^param0\[\(?(%s)-1\)?\]$" % size, "the last element of the index sequence"),
            fnb: (r"^(%s)$" % size, "the length of the index sequence")}
    for f, (rx, what) in want.items():
        nz = nonzero(assigns.get(f, []))
        if len(nz) != 1:
            raise AnalysisBroken("%s: %d non-trivial assignments of header field '%s' (1 confirmed by reading)" % (fn["qname"], len(nz), f))
        x, o = nz[0]
        res.instance(R, "%s header.%s" % (cls, f), facts.loc(x), "<- %s" % o)
        if not re.match(rx, o.replace(" ", "")):
            res.violation(R, tbf.rel(facts.path_of(x)), fn["qname"], "header." + f, x["l"][1],
                          "the group header's '%s' is set from `%s`, not from %s: the recorded range / count no longer matches the cells the group holds" % (f, o, what))
    # cells: element i <- param0[i] over [0, n)
    fills = []
    for f in walk(fm.body):
        if f.get("k") != "ForStmt":
            continue
        for x in walk(f["c"][3]):
            if x.get("k") == "BinaryOperator" and x.get("op") == "=":
                l = strip(kids(x)[0])
                if l.get("k") in ("MemberExpr", "CXXDependentScopeMemberExpr") and l.get("name") == "spaceIndex":
                    fills.append((f, x))
    if len(fills) != 1:
        raise AnalysisBroken("%s: %d loops filling the cells' index (1 confirmed by reading)" % (fn["qname"], len(fills)))
    f, x = fills[0]
    lo, hi, d = fm.loop_interval(f)
    # the record written: `viewer.getItem(i).spaceIndex`, directly or through a local reference bound to `viewer.getItem(i)`
    lbase = strip(kids(strip(kids(x)[0]))[0]) if kids(strip(kids(x)[0])) else None
    ldecls = {v["did"]: v for v in walk(f["c"][3]) if v.get("k") == "VarDecl"}
    hops = 0
    while lbase is not None and lbase.get("k") == "DeclRefExpr" and lbase.get("did") in ldecls and kids(ldecls[lbase["did"]]) and hops < 3:
        lbase = strip(kids(ldecls[lbase["did"]])[0])
        hops += 1
    lhs_idx = re.search(r"getItem\((\w+)\)$", facts.ntext(lbase)) if lbase is not None else None
    rhs = facts.ntext(kids(x)[1])
    res.instance(R, "%s cells" % cls, facts.loc(x), "cell %s <- %s over [%s,%s]" % (lhs_idx.group(1) if lhs_idx else "?", rhs, lo, hi))
    p0 = fn["params"][0]["name"]
    if not lhs_idx or rhs != "%s[%s]" % (p0, lhs_idx.group(1)):
        res.violation(R, tbf.rel(facts.path_of(x)), fn["qname"], "cell-fill", x["l"][1], "cell %s receives `%s`, not element %s of the index sequence: cells are shifted / repeated against the recorded range" % (lhs_idx.group(1) if lhs_idx else "?", rhs, lhs_idx.group(1) if lhs_idx else "?"))
    hi_s = str(hi).replace(" ", "")
    if str(lo) != "0" or not re.match(r"^<?(%s)>?-1$" % size, hi_s):
        res.violation(R, tbf.rel(facts.path_of(f)), fn["qname"], "cell-range", f["l"][1], "cells are filled over [%s, %s], not over [0, number of indices - 1]" % (lo, hi))

    # ---- particle groups: header from the group property, leaves cut where the particle's key changes
    cls = "TbfParticlesContainer"
    cs = [c for c in ctor_of(facts, cls, 3) if len(c["params"]) == 3]
    if len(cs) != 1:
        raise AnalysisBroken("%s: group-property constructor not found (%d candidates)" % (cls, len(cs)))
    fn = cs[0]
    fm = stages.FnModel(facts, fn)
    fstart, fend, fnb, fnp = (field_of_accessor(facts, cls, a) for a in ("getStartingSpacialIndex", "getEndingSpacialIndex", "getNbLeaves", "getNbParticles"))
    assigns = {}
    for x in walk(fm.body):
        if x.get("k") == "BinaryOperator" and x.get("op") == "=":
            l = strip(kids(x)[0])
            if l.get("k") in ("MemberExpr", "CXXDependentScopeMemberExpr") and l.get("name") in (fstart, fend, fnb, fnp) and kids(l):
                bo = fm.origin(kids(l)[0])
                if bo.endswith(".getItem()"):      # the single item of the header block (leaf records are getItem(k))
                    assigns.setdefault(l["name"], []).append((x, fm.origin(kids(x)[1]).replace(" ", "")))
    want = {fstart: (r"^param0\.getSpacialIndexForLeaf\(0\)$", "the index of the group's first leaf"),
            fend: (r"^param0\.getSpacialIndexForLeaf\(\(?param0\.getNbLeaves\(\)-1\)?\)$", "the index of the group's last leaf"),
            fnb: (r"^param0\.getNbLeaves\(\)$", "the group's number of leaves"),
            fnp: (r"^param0\.getNbParticles\(\)$", "the group's number of particles")}
    for f, (rx, what) in want.items():
        lst = assigns.get(f, [])
        if len(lst) != 1:
            raise AnalysisBroken("%s: %d assignments of header field '%s' (1 confirmed by reading)" % (fn["qname"], len(lst), f))
        x, o = lst[0]
        res.instance(R, "%s header.%s" % (cls, f), facts.loc(x), "<- %s" % o)
        if not re.match(rx, o):
            res.violation(R, tbf.rel(facts.path_of(x)), fn["qname"], "header." + f, x["l"][1],
                          "the particle group header's '%s' is set from `%s`, not from %s" % (f, o, what))
    # leaf records, from the function's name-free atoms: slot c (a counter from 0) is initialised from leaf 0, advanced exactly when
    # the particle's key differs from the current record's, re-initialised from leaf c with offset = the particle's position
    fidx = leaf_field(facts, cls, "getLeafSpacialIndex")
    fcnt = leaf_field(facts, cls, "getNbParticlesInLeaf")
    A = sibling.atoms(facts, fn)
    import cursor
    sk = cursor.Skeletons(facts, fn).function()
    hdrs = [c for c in facts.classes if (c.get("qname") or c.get("name")) == "TbfParticlesContainer::LeafHeader"]
    hdr = hdrs[0] if hdrs else None
    hf = [f["name"] for f in (hdr or {}).get("fields", [])]
    foffs = [f for f in hf if f not in (fidx, fcnt) and not re.search(r"array|\[", next(x["t"] for x in hdr["fields"] if x["name"] == f))] if hdr else []
    if len(foffs) != 1:
        raise AnalysisBroken("%s: leaf-record offset field not recognised (fields %s)" % (cls, hf))
    foff = foffs[0]
    keys = [k for k in A if k.startswith("assign ") and re.search(r"getViewerForBlock\(\)\.getItem\(mutable:v\d+\)\.", k)]
    ctrs = set(re.findall(r"getItem\((mutable:v\d+)\)", " ".join(keys)))
    if len(ctrs) != 1:
        raise AnalysisBroken("%s: leaf records are not addressed through one running counter (%s)" % (fn["qname"], sorted(ctrs)))
    ctr = next(iter(ctrs))
    rec = "this.objectData.getViewerForBlock().getItem(%s)" % ctr
    exp = [
        ("assign %s.%s = param0.getSpacialIndexForLeaf(0)" % (rec, fidx), "the first leaf record takes the index of leaf 0"),
        ("assign %s.%s = param0.getSpacialIndexForLeaf(%s)" % (rec, fidx, ctr), "leaf record c takes the index of leaf c"),
        ("assign %s.%s = 0" % (rec, fcnt), "a new leaf record starts with 0 particles"),
        ("assign %s.%s += 1" % (rec, fcnt), "each particle is counted in the current leaf record"),
        ("assign %s.%s = loopvar" % (rec, foff), "a leaf's offset is the position of its first particle"),
        ("assign %s.%s = 0" % (rec, foff), "the first leaf's offset is 0"),
    ]
    unexpected = [k for k in keys if k not in [e for e, _ in exp] and not re.search(r"\.boxCoord = ", k)]
    ctr_starts_at_0 = ("%s:=0;" % ctr) in sk or sk.startswith("%s:=0" % ctr)
    for e, what in exp:
        if e not in A and e.endswith("getSpacialIndexForLeaf(0)") and ctr_starts_at_0 and exp[1][0] in A:
            # the first record is initialised through the counter while it is still 0 (same statement as for the later leaves)
            res.instance(R, "%s leaf records: %s" % (cls, what), facts.loc(A[exp[1][0]]), "through the counter, which starts at 0")
            continue
        res.instance(R, "%s leaf records: %s" % (cls, what), facts.loc(A[e]) if e in A else facts.loc(fn), e[-90:] if e in A else "NOT FOUND")
        if e in A:
            continue
        near = [k for k in unexpected if sibling._near(k, e)]
        if not near:
            raise AnalysisBroken("%s: leaf-record step not recognised: %s" % (fn["qname"], what))
        res.violation(R, tbf.rel(facts.path_of(A[near[0]])), fn["qname"], "leaf-record:" + what[:40], A[near[0]]["l"][1], "%s; the code has `%s`" % (what, near[0][-120:]))
    cut = ("if((param0.getSpacialIndexForParticle(loopvar)!=%s.%s)){++%s" % (rec, fidx, ctr)) in sk
    res.instance(R, "%s leaf cut" % cls, facts.loc(fn), "new record exactly when the particle's key differs from the current record's: %s" % ("recognised" if cut else "NOT recognised"))
    if not cut:
        m = re.search(r"if\(\(param0\.getSpacialIndexForParticle\(loopvar\)(.{1,3})%s\.(\w+)\)\)\{([^}]*)\}" % re.escape(rec), sk)
        if not m:
            raise AnalysisBroken("%s: leaf cut not recognised in the control skeleton" % fn["qname"])
        res.violation(R, tbf.rel(facts.path_of(fn)), fn["qname"], "leaf-cut", fn["l"][1], "a new leaf record must start exactly when the particle's key differs from the current record's index; the code tests `%s record.%s` and does `%s`" % (m.group(1), m.group(2), m.group(3)[:60]))


def leaf_field(facts, cls, accessor):
    ms = [m for m in facts.methods_of(cls) if m["name"] == accessor and not m.get("inst") and tbf.body(m) is not None]
    fs = set()
    for m in ms:
        for x in walk(tbf.body(m)):
            if x.get("k") == "ReturnStmt" and kids(x):
                mm = re.search(r"getViewerForBlock(?:Const)?<1>\(\)\.getItem\(\w+\)\.(\w+)$", facts.ntext(kids(x)[0]))
                if mm:
                    fs.add(mm.group(1))
    if len(fs) != 1:
        raise AnalysisBroken("%s::%s: leaf-record field not recognised" % (cls, accessor))
    return next(iter(fs))


# ---------------------------------------------------------------------------------------------- C07.3 / C07.4 tree construction
def closure_and_bound(facts, res, fns):
    R3, R4 = "C07.3.block-bound", "C07.4.ancestor-closure"
    n3 = n4 = 0
    for fn in fns:
        fm = stages.FnModel(facts, fn)
        body = fm.body
        tbf.link_parents(body)
        # level loop
        lvl = [f for f in walk(body) if f.get("k") == "ForStmt" and fm.is_level_loop(f)]
        # only the loops that derive a level from the one below (they append parent indices); a loop over the levels that reads the finished
        # groups (filling a directory, counting) builds nothing
        lvl = [f for f in lvl if any(c.get("k") in ("CallExpr", "CXXMemberCallExpr") and tbf.callee_name(c) in ("push_back", "emplace_back") and len(tbf.call_args(c)) == 1
                                     and "getParentIndex" in fm.origin(tbf.call_args(c)[0]) for c in walk(f))] or lvl
        if len(lvl) == 2:
            # the grouping-mode test hoisted out of the level loop: one level loop per mode, on the two sides of one branch
            anc0 = [a_ for a_ in tbf.ancestors(lvl[0]) if a_.get("k") == "IfStmt"]
            anc1 = [a_ for a_ in tbf.ancestors(lvl[1]) if a_.get("k") == "IfStmt"]
            common = [a_ for a_ in anc0 if any(a_ is b_ for b_ in anc1)]
            excl = False
            for i_ in common:
                br = [y for y in kids(i_) if y.get("k") != "DeclStmt"][1:]
                side = [[any(x is l_ for x in walk(b_)) for b_ in br] for l_ in lvl]
                if len(br) == 2 and side[0] != side[1]:
                    excl = True
            if not excl:
                raise AnalysisBroken("%s: 2 level loops that are not the two sides of one branch" % fn["qname"])
        elif len(lvl) != 1:
            raise AnalysisBroken("%s: %d level loops (1, or 1 per grouping mode, confirmed by reading)" % (fn["qname"], len(lvl)))
        for lv_ in lvl:
            lo, hi, d = fm.loop_interval(lv_)
            res.instance(R4, "%s levels@%d" % (fn["qname"], lv_["l"][1]) if len(lvl) > 1 else "%s levels" % fn["qname"], facts.loc(lv_), "[%s, %s] %s" % (lo, hi, d))
            n4 += 1
            if str(lo) != "0" or str(hi).replace(" ", "") != "H-2" or d != "down":
                res.violation(R4, tbf.rel(facts.path_of(lv_)), fn["qname"], "levels", lv_["l"][1], "upper levels are built over [%s, %s] %s, not from H-2 down to 0: a level is missing or built before the level it derives from" % (lo, hi, d))
        # pushes of parents
        pushes = []
        loop_of = {}
        for lv_ in lvl:
            for c in walk(lv_):
                if c.get("k") in ("CallExpr", "CXXMemberCallExpr") and tbf.callee_name(c) in ("push_back", "emplace_back"):
                    b = strip(tbf.call_base(c)) if tbf.call_base(c) is not None else None
                    a = tbf.call_args(c)
                    if b is not None and b.get("k") == "DeclRefExpr" and b.get("dk") == "Var" and len(a) == 1 and "getParentIndex" in fm.origin(a[0]):
                        pushes.append(c)
                        loop_of[id(c)] = lv_
        if len(pushes) not in (1, 2):
            raise AnalysisBroken("%s: %d parent-index appends in the level loop (one per grouping mode, or one for both; 2 confirmed by reading)" % (fn["qname"], len(pushes)))
        for c in pushes:
            val = fm.origin(tbf.call_args(c)[0])
            n4 += 1
            res.instance(R4, "%s append@%d" % (fn["qname"], c["l"][1]), facts.loc(c), val[:160])
            m = re.match(r"^this\.spaceSystem\.getParentIndex\(each\((.*)\)\.getCellSpacialIndex\((.*)\)\)$", val)
            if not m or "[(L+1)]" not in m.group(1).replace(" ", ""):
                res.violation(R4, tbf.rel(facts.path_of(c)), fn["qname"], "parent-of@%d" % c["l"][1], c["l"][1],
                              "what is appended at level L is `%s`, not the parent of a cell of a group of level L+1" % val[:140])
                continue
            # the loops around the append: range-for over the groups of L+1, counted loop over its cells up to getNbCells()
            loops = []
            mylvl = loop_of[id(c)]
            p = c.get("_p")
            while p is not None and p is not mylvl:
                if p.get("k") in ("ForStmt", "CXXForRangeStmt", "WhileStmt"):
                    loops.append(p)
                p = p.get("_p")
            cell_loops = [l for l in loops if l.get("k") == "ForStmt"]
            grp_loops = [l for l in loops if l.get("k") == "CXXForRangeStmt"]
            if len(cell_loops) != 1 or len(grp_loops) != 1:
                raise AnalysisBroken("%s: loops around the append at line %d not recognised (%d counted, %d range)" % (fn["qname"], c["l"][1], len(cell_loops), len(grp_loops)))
            cl = cell_loops[0]
            grp = m.group(1)
            idx = m.group(2)
            co = fm.cond_origin(cl["c"][1]) if cl["c"][1] is not None else ""
            if co != "(%s<each(%s).getNbCells())" % (idx, grp):
                res.violation(R4, tbf.rel(facts.path_of(cl)), fn["qname"], "cell-range@%d" % cl["l"][1], cl["l"][1], "the cells of a lower group are visited while `%s`, not while the visited cell's position is below that group's number of cells: some children contribute no parent" % co[:120])
            inc = strip(cl["c"][2]) if cl["c"][2] is not None else None
            inc_ok = inc is not None and ((inc.get("k") == "UnaryOperator" and inc.get("op") == "++") or (inc.get("k") == "CompoundAssignOperator" and inc.get("op") == "+=" and fm.origin(kids(inc)[1]) == "1"))
            if not inc_ok:
                res.violation(R4, tbf.rel(facts.path_of(cl)), fn["qname"], "cell-step@%d" % cl["l"][1], cl["l"][1], "the cell loop does not advance by one (`%s`)" % (facts.ntext(inc) if inc else ""))
            init = cl["c"][0]
            if init is not None and kids(init):
                iv = [v for v in kids(init) if v.get("k") == "VarDecl"]
                if iv and kids(iv[0]) and fm.origin(kids(iv[0])[0]) != "0":
                    res.violation(R4, tbf.rel(facts.path_of(cl)), fn["qname"], "cell-start@%d" % cl["l"][1], cl["l"][1], "the cell loop starts at `%s`, not 0" % fm.origin(kids(iv[0])[0]))
            # de-duplication guard: the nearest enclosing if (inside the cell loop) compares the last appended value with the value appended
            g = c.get("_p")
            while g is not None and g.get("k") != "IfStmt":
                g = g.get("_p")
            if g is None or not any(x is g for x in walk(cl)):
                res.violation(R4, tbf.rel(facts.path_of(c)), fn["qname"], "dedupe@%d" % c["l"][1], c["l"][1], "the parent index is appended without comparing it with the one appended last: a parent with several children enters the level several times")
                continue
            gc = g["c"][-3] if len(g["c"]) >= 3 else g["c"][0]
            gt = fm.cond_origin(gc)
            B = fm.origin(tbf.call_base(c))
            ok = gt in ["(%s||(%s.back()!=%s))" % (e_, B, val) for e_ in ("%s.empty()" % B, "(%s.size()==0)" % B, "(0==%s.size())" % B)] \
                or gt in ["(%s||(%s!=%s.back()))" % (e_, val, B) for e_ in ("%s.empty()" % B, "(%s.size()==0)" % B, "(0==%s.size())" % B)]
            if not ok:
                m2 = re.match(r"^\((mutable:\w+)!=(.*)\)$", gt)
                prev = None
                if m2 and m2.group(2) == val:
                    prev = m2.group(1)
                else:
                    m3 = re.match(r"^\((.*)!=(mutable:\w+)\)$", gt)
                    if m3 and m3.group(1) == val:
                        prev = m3.group(2)
                if prev is not None:
                    pname = prev.split(":", 1)[1]
                    then = g["c"][-2] if len(g["c"]) >= 3 else g["c"][1]
                    sets = [fm.origin(kids(x)[1]) for x in walk(then) if x.get("k") == "BinaryOperator" and x.get("op") == "=" and strip(kids(x)[0]).get("name") == pname and strip(kids(x)[0]).get("k") == "DeclRefExpr"]
                    decl = [v for v in walk(body) if v.get("k") == "VarDecl" and v.get("name") == pname]
                    init_ok = bool(decl) and kids(decl[0]) and fm.origin(kids(decl[0])[0]) in ("-1",)
                    ok = sets == [val] and init_ok
                    if ok:
                        # the reference value must be fresh at every level: the last index of level L+1's parents says nothing about level L,
                        # and a stale value equal to the first parent of the next level drops that parent (and with it the whole level above a lone cell)
                        lbody = mylvl["c"][3]
                        chain = set(id(a_) for a_ in tbf.ancestors(c))
                        fresh = any(x is decl[0] for x in walk(lbody))
                        if not fresh:
                            for x in walk(lbody):
                                if x.get("k") == "BinaryOperator" and x.get("op") == "=" and strip(kids(x)[0]).get("k") == "DeclRefExpr" and strip(kids(x)[0]).get("did") == decl[0]["did"] \
                                        and fm.origin(kids(x)[1]) == "-1" and x["l"][1] < grp_loops[0]["l"][1]:
                                    up = [a_ for a_ in tbf.ancestors(x) if a_.get("k") in ("IfStmt", "ForStmt", "WhileStmt", "CXXForRangeStmt", "DoStmt", "SwitchStmt")]
                                    if all(id(a_) in chain for a_ in up):
                                        fresh = True
                        res.instance(R4, "%s dedupe reference fresh per level@%d" % (fn["qname"], decl[0]["l"][1]), facts.loc(decl[0]), "declared or reset to the sentinel inside the level loop: %s" % fresh)
                        if not fresh:
                            res.violation(R4, tbf.rel(facts.path_of(decl[0])), fn["qname"], "dedupe-stale@%s" % pname, decl[0]["l"][1],
                                          "the value `%s` that parents are de-duplicated against is initialised once, outside the level loop, and never reset: at the start of level L it still holds the last "
                                          "parent index of level L+1, so a first parent with that index is dropped (a level made of one cell of index 0 empties every level above it)" % pname)
            res.instance(R4, "%s dedupe@%d" % (fn["qname"], g["l"][1]), facts.loc(g), gt[:140])
            if not ok:
                res.violation(R4, tbf.rel(facts.path_of(g)), fn["qname"], "dedupe@%d" % g["l"][1], g["l"][1],
                              "the guard `%s` does not compare the value appended (`%s`) with the value appended last: parents are duplicated or dropped" % (gt[:100], val[:80]))
        # block-size bound: a flush under size(buffer) == this.nbElementsPerBlock next to the append of block mode
        thr = []
        for i in [i_ for lv_ in lvl for i_ in walk(lv_)]:
            if i.get("k") == "IfStmt":
                c0 = i["c"][-3] if len(i["c"]) >= 3 else i["c"][0]
                o = fm.origin(c0).replace(" ", "")
                if "size" in o and ("==" in o.replace("size()==0", "") or ">=" in o or "<=" in o) and any(tbf.callee_name(x) == "emplace_back" for x in walk(i) if x.get("k") in ("CallExpr", "CXXMemberCallExpr")):
                    thr.append((i, o))
        if len(thr) != 1:
            raise AnalysisBroken("%s: %d size-threshold flushes in the level loop (1 confirmed by reading)" % (fn["qname"], len(thr)))
        i, o = thr[0]
        n3 += 1
        # the threshold must sit inside the branch that appended (so that it is evaluated after EACH append): a test made once per child
        # group lets the buffer grow by every new parent of that group first - groups of up to 2B-1 cells
        inside = any(any(x is i for x in walk(g2)) for lv_ in lvl for g2 in walk(lv_) if g2.get("k") == "IfStmt" and g2 is not i and any(x in pushes for x in walk(g2)))
        if not inside:
            res.violation(R3, tbf.rel(facts.path_of(i)), fn["qname"], "threshold-place", i["l"][1],
                          "the size test `%s` is not evaluated after each append of a parent index (it sits outside the branch that appends): in block mode the buffer keeps receiving the remaining new parents of the child group being visited and the emitted group exceeds the requested block size" % o[:90])
        if inside:
            sp = [c for c in walk(body) if c.get("k") in ("CallExpr", "CXXMemberCallExpr") and tbf.callee_name(c) == "splitInGroups"]
            if len(sp) != 1:
                raise AnalysisBroken("%s: %d splitInGroups calls" % (fn["qname"], len(sp)))
            so = fm.origin(tbf.call_args(sp[0])[0])
            res.instance(R3, "%s threshold" % fn["qname"], facts.loc(i), "%s ; particle groups cut by %s" % (o[:120], so))
            mt = re.match(r"^\(+(.*)\.size\(\)\)*(==|>=)(.*?)\)+$", o) or re.match(r"^\(+(?:std::)?size\((.*?)\)\)*(==|>=)(.*?)\)+$", o)
            if not mt:
                # the comparison as one conjunct of a larger condition, either way round
                m5 = re.search(r"([\w\.:]+)\.size\(\)\)*(==|>=)([\w\.:]+)", o) or re.search(r"size\(([\w\.:]+)\)\)*(==|>=)([\w\.:]+)", o)
                m6 = re.search(r"([\w\.:]+)(==|<=)\(*(?:[\w\.:]+\.size\(\)|(?:std::)?size\([\w\.:]+\))", o)
                if m5:
                    mt = m5
                elif m6:
                    class _M:      # same shape as a match object: group(3) is the bound
                        def __init__(self, b): self.b = b
                        def group(self, k): return self.b if k == 3 else None
                    mt = _M(m6.group(1))
            if not mt:
                raise AnalysisBroken("%s: size-threshold condition `%s` not recognised" % (fn["qname"], o[:100]))
            if mt.group(3) != so:
                res.violation(R3, tbf.rel(facts.path_of(i)), fn["qname"], "threshold", i["l"][1], "a cell group is emitted when its size reaches `%s`, particle groups are cut by `%s`: cell groups exceed (or undershoot) the requested block size" % (mt.group(3)[:80], so))
            # that quantity is the member the constructor sets from its block-size argument
            mem = re.match(r"^this\.(\w+)$", so)
            ct = ctor_of(facts, "TbfTree", 2)[0]
            ini = [x for x in ct.get("inits", []) if mem and x.get("member") == mem.group(1)]
            if not mem or len(ini) != 1:
                raise AnalysisBroken("%s: the block size `%s` is not a member initialised by the constructor" % (fn["qname"], so))
            arg = [p["name"] for p in ct["params"] if "long" in p["t"] or "int" in p["t"]]
            init_txt = " ".join(facts.ntext(c) for c in ini[0].get("c", []) if c)
            if not arg or arg[0] not in init_txt:
                res.violation(R3, tbf.rel(facts.path_of(ct)), ct["qname"], "block-size-member", ct["l"][1], "the tree's block size member is initialised from `%s`, not from the constructor's block-size argument" % init_txt[:100])
        n3 += 1
        # leaf level: one cell group per particle group, buffer slot i <- leaf i of that group over [0, its number of leaves), emitted at level H-1
        import sibling
        A = sibling.atoms(facts, fn)
        asg = [k for k in A if re.match(r"^assign local:u\d+\[loopvar\] = each\((.*)\)\.getLeafSpacialIndex\((.*)\)$", k)]
        n4 += 1
        if len(asg) != 1:
            cand = [k for k in A if "getLeafSpacialIndex" in k and k.startswith("assign")]
            if len(cand) == 1:
                res.violation(R4, tbf.rel(facts.path_of(A[cand[0]])), fn["qname"], "leaf-copy", A[cand[0]]["l"][1], "the leaf-level buffer is filled by `%s`, not slot i <- leaf i of the particle group" % cand[0][:150])
                continue
            raise AnalysisBroken("%s: leaf-level copy not recognised" % fn["qname"])
        m = re.match(r"^assign (local:u\d+)\[loopvar\] = (each\(.*\))\.getLeafSpacialIndex\((.*)\)$", asg[0])
        buf, grp, idx = m.group(1), m.group(2), m.group(3)
        res.instance(R4, "%s leaf level" % fn["qname"], facts.loc(A[asg[0]]), asg[0][:150])
        if idx != "loopvar":
            res.violation(R4, tbf.rel(facts.path_of(A[asg[0]])), fn["qname"], "leaf-copy", A[asg[0]]["l"][1], "buffer slot i receives leaf `%s` of the particle group" % idx)
        if grp != "each(this.particleGroups)" and not re.match(r"^each\(this\.\w+\)$", grp):
            res.violation(R4, tbf.rel(facts.path_of(A[asg[0]])), fn["qname"], "leaf-source", A[asg[0]]["l"][1], "leaf indices are taken from `%s`, not from each particle group of the tree in turn" % grp[:80])
        need = {"loop [0,<%s.getNbLeaves()> - 1] up" % grp: "the copy runs over [0, number of leaves of the group)",
                "call %s.resize(%s.getNbLeaves())" % (buf, grp): "the buffer is resized to the group's number of leaves"}
        for k, what in need.items():
            if k not in A:
                near = [a for a in A if a.split(" ")[0] == k.split(" ")[0] and sibling._near(a, k)]
                if not near:
                    raise AnalysisBroken("%s: leaf level: `%s` not found (%s)" % (fn["qname"], k, what))
                res.violation(R4, tbf.rel(facts.path_of(A[near[0]])), fn["qname"], "leaf-" + k.split(" ")[0], A[near[0]]["l"][1], "%s; the code has `%s`" % (what, near[0][:120]))
        em = [k for k in A if re.match(r"^call this\.\w+\[\(H-1\)\]\.emplace_back\(%s," % re.escape(buf), k)]
        if len(em) != 1:
            oth = [k for k in A if re.match(r"^call this\.\w+\[.*\]\.emplace_back\(%s," % re.escape(buf), k)]
            if oth:
                res.violation(R4, tbf.rel(facts.path_of(A[oth[0]])), fn["qname"], "leaf-level", A[oth[0]]["l"][1], "the leaf cell groups are stored by `%s`, not at level H-1" % oth[0][:100])
            else:
                raise AnalysisBroken("%s: emission of the leaf cell groups not recognised" % fn["qname"])
    res.floor(R3, n3, 4, "block-size sites")
    res.floor(R4, n4, 6, "closure sites")


def isym(fm, n, env):
    """sympy value of an integer expression: + - * / (floor), std::min / std::max, casts, calls and members as opaque symbols;
    env maps origin strings to replacement expressions"""
    import sympy
    n = strip(n)
    k = n.get("k")
    if k == "IntegerLiteral":
        return sympy.Integer(n["val"])
    if k in ("CXXStaticCastExpr", "CStyleCastExpr", "CXXFunctionalCastExpr", "ParenExpr"):
        return isym(fm, kids(n)[0], env)
    if k == "BinaryOperator" and n.get("op") in ("+", "-", "*", "/"):
        a, b = [isym(fm, x, env) for x in kids(n)]
        return {"+": lambda: a + b, "-": lambda: a - b, "*": lambda: a * b, "/": lambda: sympy.floor(a / b)}[n["op"]]()
    if k == "CallExpr" and tbf.callee_name(n) in ("min", "max") and len(tbf.call_args(n)) == 2:
        a, b = [isym(fm, x, env) for x in tbf.call_args(n)]
        return sympy.Min(a, b) if tbf.callee_name(n) == "min" else sympy.Max(a, b)
    o = fm.origin(n)
    if o in env:
        return env[o]
    if k == "DeclRefExpr" and n.get("did") not in fm.assigned and n.get("did") not in fm.loop_vars:
        d = fm.decls.get(n.get("did"))
        if d is not None and d.get("k") == "VarDecl" and kids(d):
            return isym(fm, kids(d)[0], env)
    if re.match(r"^-?\d+$", o):
        return sympy.Integer(int(o))
    return sympy.Symbol("<" + o + ">", integer=True, nonnegative=True)


def setter_field(facts, cls_methods, name):
    ms = [m for m in cls_methods if m["name"] == name and tbf.body(m) is not None]
    if len(ms) != 1 or len(ms[0]["params"]) != 1:
        raise AnalysisBroken("setter %s not found" % name)
    for x in walk(tbf.body(ms[0])):
        if x.get("k") == "BinaryOperator" and x.get("op") == "=" and strip(kids(x)[1]).get("did") == ms[0]["params"][0]["did"]:
            l = strip(kids(x)[0])
            if l.get("k") in ("MemberExpr", "CXXDependentScopeMemberExpr", "DeclRefExpr"):
                return l.get("name")
    raise AnalysisBroken("setter %s: stored field not recognised" % name)


def split_coverage(facts, res, fn):
    """C07.3 (coverage): when the number of leaves a group takes depends on the leaves themselves (a cut moved to a parent boundary, a
    size found by scanning), the number of groups cannot be fixed beforehand from the requested size: every shortened group leaves leaves
    over, and a loop that runs ceil(leaves / size) times stops before they are consumed.  Such a split must be driven by what is left
    (its loop condition or a break tests the running first leaf against the number of leaves) or give the remainder to the last group."""
    R3 = "C07.3.block-bound"
    b = tbf.body(fn)
    tbf.link_parents(b)
    loops = [f for f in walk(b) if f.get("k") == "ForStmt" and any(x.get("k") in ("CallExpr", "CXXMemberCallExpr") and tbf.callee_name(x) == "setNbCells" for x in walk(f))]
    loops = [f for f in loops if not any(g is not f and any(y is g for y in walk(f)) for g in loops)]
    if len(loops) != 1:
        return False
    loop = loops[0]
    body = kids(loop)[-1]
    decls = {v["did"]: v for v in walk(b) if v.get("k") == "VarDecl"}
    # variables assigned inside a nested loop of the group loop, or from expressions that read the leaves
    READS = ("getSpacialIndexForLeaf", "getParentIndex", "getSpacialIndexForParticle")
    dd = set()
    for inner in walk(body):
        if inner.get("k") in ("WhileStmt", "ForStmt", "DoStmt") and inner is not loop:
            datacond = any(y.get("k") in ("CallExpr", "CXXMemberCallExpr") and tbf.callee_name(y) in READS for y in walk(kids(inner)[0] if inner.get("k") == "WhileStmt" else inner))
            if not datacond:
                continue
            for y in walk(inner):
                if (y.get("k") == "UnaryOperator" and y.get("op") in ("++", "--")) or (y.get("k") in ("CompoundAssignOperator", "BinaryOperator") and y.get("op", "").endswith("=") and y.get("op") not in ("==", "!=", "<=", ">=")):
                    t = strip(kids(y)[0])
                    if t.get("k") == "DeclRefExpr":
                        dd.add(t.get("did"))
    changed = True
    while changed:
        changed = False
        for y in walk(body):
            if y.get("k") == "BinaryOperator" and y.get("op") == "=" and strip(kids(y)[0]).get("k") == "DeclRefExpr":
                t = strip(kids(y)[0]).get("did")
                if t not in dd and any(z.get("k") == "DeclRefExpr" and z.get("did") in dd for z in walk(kids(y)[1])):
                    dd.add(t)
                    changed = True
            if y.get("k") == "VarDecl" and y.get("did") not in dd and kids(y) and any(z.get("k") == "DeclRefExpr" and z.get("did") in dd for z in walk(kids(y)[0])):
                dd.add(y["did"])
                changed = True
    sizes = [x for x in walk(body) if x.get("k") in ("CallExpr", "CXXMemberCallExpr") and tbf.callee_name(x) == "setNbCells"]
    dep = [x for x in sizes if any(z.get("k") == "DeclRefExpr" and z.get("did") in dd for z in walk(x))]
    # the particle count of a group is found by scanning (it always was): only the LEAF count matters here
    if not dep:
        return False
    cond = kids(loop)[1]
    lv = [v["did"] for v in kids(kids(loop)[0]) if v.get("k") == "VarDecl"] if kids(loop)[0] is not None else []
    assigned_in_loop = set()
    for y in walk(body):
        if y.get("k") in ("BinaryOperator", "CompoundAssignOperator") and y.get("op", "").endswith("=") and y.get("op") not in ("==", "!=", "<=", ">=") and strip(kids(y)[0]).get("k") == "DeclRefExpr":
            assigned_in_loop.add(strip(kids(y)[0]).get("did"))
        if y.get("k") == "VarDecl":
            assigned_in_loop.add(y["did"])
    driven = any(z.get("k") == "DeclRefExpr" and z.get("did") in assigned_in_loop and z.get("did") not in lv for z in walk(cond)) or \
        any(z.get("k") in ("CallExpr", "CXXMemberCallExpr") and tbf.callee_name(z) in ("back", "size") for z in walk(cond))
    breaks = [y for y in walk(body) if y.get("k") == "BreakStmt" and not any(a.get("k") in ("WhileStmt", "ForStmt", "DoStmt", "SwitchStmt") and a is not loop and any(q is a for q in walk(body)) for a in tbf.ancestors(y))]
    res.instance(R3, "sorter split: coverage", facts.loc(loop), "the leaf count of a group depends on the leaves (%s); loop condition `%s` driven by what is left: %s; breaks: %d" % (facts.ntext(dep[0])[:50], facts.ntext(cond)[:50], driven, len(breaks)))
    if not driven and not breaks:
        res.violation(R3, tbf.rel(facts.path_of(loop)), fn["qname"], "split-coverage", loop["l"][1],
                      "the number of leaves a group takes depends on the leaves themselves (`%s`), but the loop runs `%s` - a number of groups fixed beforehand: every group that ends early leaves leaves over, and the last ones (with their particles) end up in no group" % (facts.ntext(dep[0])[:60], facts.ntext(cond)[:60]))
        return True
    return False


def sorter_split(facts, res):
    import sympy
    R3, R5 = "C07.3.block-bound", "C07.5.sorted-leaves"
    cls = "TbfParticleSorter"
    fn = method(facts, cls, "splitInGroups")
    if split_coverage(facts, res, fn):
        sort_key(facts, res)
        return
    fm = stages.FnModel(facts, fn)
    gp = [m for m in facts.functions if not m.get("inst") and (m.get("clsq") or m.get("qname", "")).find("GroupProperty") >= 0]
    ffirst, fnb, fpfirst, fpnb = (setter_field(facts, gp, nm) for nm in ("setFirstCell", "setNbCells", "setFirstParticle", "setNbParticles"))
    S = sympy.Symbol("<param0>", integer=True, nonnegative=True)
    N = sympy.Symbol("<*this.getNbLeaves()>", integer=True, nonnegative=True)
    # the group loop: the counted loop in which a group's first leaf is set (other loops - e.g. the particle count written as a for - do not matter here)
    loops = [f for f in walk(fm.body) if f.get("k") == "ForStmt" and any(x.get("k") in ("CallExpr", "CXXMemberCallExpr") and tbf.callee_name(x) == "setFirstCell" for x in walk(f))]
    loops = [f for f in loops if not any(g is not f and any(y is g for y in walk(f)) for g in loops)]      # innermost such loop
    if len(loops) != 1:
        raise AnalysisBroken("%s: %d group loops (1 confirmed by reading)" % (fn["qname"], len(loops)))
    init, cond, inc, _b = loops[0]["c"]
    gvar = [v for v in kids(init) if v.get("k") == "VarDecl"][0]
    g = sympy.Symbol("g", integer=True, nonnegative=True)
    calls = {}
    for x in walk(loops[0]):
        if x.get("k") in ("CallExpr", "CXXMemberCallExpr") and tbf.callee_name(x) in ("setFirstCell", "setNbCells", "setFirstParticle", "setNbParticles"):
            calls.setdefault(tbf.callee_name(x), []).append(x)
    for nm, cnt in (("setFirstCell", 1), ("setNbCells", 1), ("setFirstParticle", 2), ("setNbParticles", 1)):
        if len(calls.get(nm, [])) != cnt:
            raise AnalysisBroken("%s: %d calls of %s in the group loop (%d confirmed by reading)" % (fn["qname"], len(calls.get(nm, [])), nm, cnt))
    base = fm.origin(tbf.call_base(calls["setFirstCell"][0]))       # the group being described
    env = {"loopvar": g}
    first = isym(fm, tbf.call_args(calls["setFirstCell"][0])[0], env)
    env2 = dict(env)
    env2[base + "." + ffirst] = first
    nb = isym(fm, tbf.call_args(calls["setNbCells"][0])[0], env2)
    # number of groups: the loop bound
    cnd = strip(cond)
    if cnd.get("k") != "BinaryOperator" or cnd.get("op") != "<" or strip(kids(cnd)[0]).get("did") != gvar["did"] or kids(gvar) == [] or fm.origin(kids(gvar)[0]) != "0":
        raise AnalysisBroken("%s: group loop is not `for(g = 0; g < count; ++g)`" % fn["qname"])
    count = isym(fm, kids(cnd)[1], {})
    res.instance(R3, "sorter split", facts.loc(fn), "count = %s ; first(g) = %s ; size(g) = %s" % (count, first, nb))

    def same(a, b):
        d = sympy.simplify(a - b)
        if d == 0:
            return True
        # piecewise identities with Min / floor: compare on a grid of integers as a normal-form fallback
        syms = sorted((a - b).free_symbols, key=str)
        import itertools
        for vals in itertools.product((1, 2, 3, 5, 8, 13), repeat=len(syms)):
            if (a - b).subs(dict(zip(syms, vals))) != 0:
                return False
        return True
    # the EFFECTIVE block size: the requested one, possibly clamped to the number of leaves (a request larger than everything there is means
    # "one group"; clamping keeps the sums and products below from overflowing).  Accepted iff 1 <= S' <= S, S' = S whenever S <= leaves, and
    # S' >= leaves otherwise - then splitting by S' makes the very same groups as splitting by S
    S_req = S
    try:
        X = sympy.simplify(first / g)
    except Exception:
        X = None
    if X is not None and g not in X.free_symbols and X != S and X.free_symbols <= {S, N}:
        ok_eff = True
        for sv in (1, 2, 3, 5, 8, 13, 10 ** 12):
            for nv in (1, 2, 3, 5, 8, 13, 40):
                xv = X.subs({S: sv, N: nv})
                if not (1 <= xv <= sv and (xv == sv if sv <= nv else xv >= nv)):
                    ok_eff = False
        if ok_eff:
            res.instance(R3, "sorter split: effective block size", facts.loc(fn), "%s (the request clamped to the number of leaves: same groups, no overflow)" % X)
            S = X
    want_count = sympy.floor((N + S - 1) / S)
    if not same(count, want_count):
        res.violation(R3, tbf.rel(facts.path_of(loops[0])), fn["qname"], "split-count", loops[0]["l"][1], "the number of particle groups is `%s`, not ceil(leaves / block size) = `%s`: the last leaves are in no group, or an empty group is made" % (count, want_count))
    if not same(first, g * S):
        res.violation(R3, tbf.rel(facts.path_of(calls["setFirstCell"][0])), fn["qname"], "split-first", calls["setFirstCell"][0]["l"][1], "group g starts at leaf `%s`, not g * block size: groups overlap or leave a gap" % first)
    if not same(nb, sympy.Min((g + 1) * S, N) - g * S):
        res.violation(R3, tbf.rel(facts.path_of(calls["setNbCells"][0])), fn["qname"], "split-size", calls["setNbCells"][0]["l"][1], "group g holds `%s` leaves, not min((g+1) * block size, leaves) - g * block size: a group exceeds the block size or runs past the last leaf" % nb)
    # particle ranges: 0 for the first group, previous first + previous count otherwise
    fp = sorted(fm.origin(tbf.call_args(c)[0]).replace(" ", "") for c in calls["setFirstParticle"])
    rx1 = r"^\((.+)\[\(loopvar-1\)\]\.%s\+\1\[\(loopvar-1\)\]\.%s\)$"
    okp = len(fp) == 2 and fp[1] == "0" and (re.match(rx1 % (re.escape(fpfirst), re.escape(fpnb)), fp[0]) or re.match(rx1 % (re.escape(fpnb), re.escape(fpfirst)), fp[0]))
    res.instance(R3, "sorter split: particle ranges", facts.loc(calls["setFirstParticle"][0]), " / ".join(fp))
    if not okp:
        res.violation(R3, tbf.rel(facts.path_of(calls["setFirstParticle"][0])), fn["qname"], "split-particles", calls["setFirstParticle"][0]["l"][1],
                      "a group's first particle is `%s` / `%s`, not 0 for the first group and (previous first + previous count) after: particle ranges overlap or leave a gap" % (fp[1] if len(fp) > 1 else "?", fp[0]))
    sort_key(facts, res)


def sort_key(facts, res):
    """C07.5: sort key = cut key (independent of how the sorted leaves are split into groups)"""
    R3, R5 = "C07.3.block-bound", "C07.5.sorted-leaves"
    cls = "TbfParticleSorter"
    cs = [c for c in ctor_of(facts, cls, 2)]
    if len(cs) != 1:
        raise AnalysisBroken("%s: constructor not found" % cls)
    ctor = cs[0]
    body = tbf.body(ctor)
    sorts = [c for c in walk(body) if c.get("k") == "CallExpr" and tbf.callee_name(c) == "sort"]
    if len(sorts) != 1:
        raise AnalysisBroken("%s: %d std::sort calls in the constructor (1 confirmed by reading)" % (cls, len(sorts)))
    srt = sorts[0]
    lam = [y for y in walk(srt) if y.get("k") == "LambdaExpr"]
    if len(lam) != 1:
        # default operator<: fine when the sorted elements are the (leaf index, original position) pairs themselves - std::pair compares the
        # first member first; a sort of DERIVED keys is order-preserving only if the key keeps every bit of the leaf index above everything else
        arr0 = strip(tbf.call_args(srt)[0])
        names0 = [y.get("name") for y in walk(arr0) if y.get("k") in ("MemberExpr", "DeclRefExpr", "CXXDependentScopeMemberExpr") and y.get("name") not in ("begin", "end")]
        an = names0[0] if names0 else None
        bt0 = facts.ntext(body)
        decl_t = ""
        for fl in facts.cls(cls).get("fields", []):
            if fl.get("name") == an:
                decl_t = fl.get("t", "")
        for v in walk(body):
            if v.get("k") == "VarDecl" and v.get("name") == an:
                decl_t = v.get("t", "")
        if an and re.search(r"%s\[(\w+)\]\.first=\w+\.getIndexFromPosition\(\w+\[\1\]\)" % re.escape(an), bt0) and "pair<" in decl_t.replace(" ", ""):
            res.instance(R5, "sort comparator", facts.loc(srt), "default operator< of std::pair on '%s': orders by the leaf index first" % an)
            return
        shifted = None
        for x in walk(body):
            if x.get("k") in ("BinaryOperator",) and x.get("op") == "=" and an and facts.ntext(kids(x)[0]).startswith(an + "["):
                for y in walk(kids(x)[1]):
                    if y.get("k") == "BinaryOperator" and y.get("op") in ("<<", "*") and ".first" in facts.ntext(kids(y)[0]):
                        shifted = y
        if shifted is not None:
            res.violation(R5, tbf.rel(facts.path_of(srt)), ctor["qname"], "sort-key", shifted["l"][1],
                          "particles are sorted by a derived key `%s`: a leaf index may use all 63 bits (Dim x (height-1) <= 63), so shifting / scaling it drops its high bits on deep trees "
                          "and the order of the keys is no longer the order of the leaf indices" % facts.ntext(shifted)[:90])
            return
        if an and packed_key(facts, cls, ctor, body, an, srt, res, R5):
            return
        raise AnalysisBroken("%s: particles are sorted without a comparator and the sorted sequence '%s' is not the (leaf index, position) pair array: re-confirm by reading" % (cls, an))
    ret = [r for r in walk(lam[0]) if r.get("k") == "ReturnStmt"]
    key = None
    if len(ret) == 1:
        e0 = strip(kids(ret[0])[0])
        if e0.get("k") == "BinaryOperator" and e0.get("op") == "<":
            a, b = [strip(x) for x in kids(e0)]
            ps = [p["did"] for p in (lam[0].get("params") or [c for c in lam[0].get("c", []) if c and c.get("k") == "ParmVarDecl"])]
            if a.get("name") == b.get("name") and a.get("k") in ("MemberExpr", "CXXDependentScopeMemberExpr") and len(ps) == 2 and strip(kids(a)[0]).get("did") == ps[0] and strip(kids(b)[0]).get("did") == ps[1]:
                key = a["name"]
    res.instance(R5, "sort comparator", facts.loc(srt), "orders by member '%s'" % key)
    if key is None:
        raise AnalysisBroken("%s: sort comparator is not `a.k < b.k`: %s" % (cls, facts.ntext(lam[0])[:100]))
    arr = strip(tbf.call_args(srt)[0])
    arrname = [y.get("name") for y in walk(arr) if y.get("k") in ("MemberExpr", "DeclRefExpr", "CXXDependentScopeMemberExpr") and y.get("name") not in ("begin", "end")]
    arrname = arrname[0] if arrname else None
    bt = facts.ntext(body)
    # the key field is what getIndexFromPosition produced
    if not re.search(r"%s\[(\w+)\]\.%s=\w+\.getIndexFromPosition\(\w+\[\1\]\)" % (re.escape(arrname or "?"), re.escape(key)), bt):
        res.violation(R5, tbf.rel(facts.path_of(srt)), ctor["qname"], "sort-key", srt["l"][1], "particles are sorted by '%s', which is not the member holding their leaf index" % key)
    # leaves are cut after the sort, on the same key, against the last leaf's key
    cut = None
    for i in walk(body):
        if i.get("k") == "IfStmt":
            c0 = facts.ntext(i["c"][-3] if len(i["c"]) >= 3 else i["c"][0])
            if "empty()" in c0 or "size()==0" in c0:
                cut = (i, c0)
    if cut is None:
        raise AnalysisBroken("%s: leaf cut not recognised" % cls)
    i, c0 = cut
    res.instance(R5, "leaf cut", facts.loc(i), c0[:120])
    m = re.match(r"^(\w+)\.empty\(\)\|\|\1\.back\(\)\.(\w+)!=%s\[(\w+)\]\.(\w+)$" % re.escape(arrname or "?"), c0)
    elem = None
    if not m:
        # the sorted array walked by a range-for: `for(const auto& e : sorted){ if(leaves.empty() || leaves.back().k != e.k) ...`
        tbf.link_parents(body)
        for rf in [a_ for a_ in tbf.ancestors(i) if a_.get("k") == "CXXForRangeStmt"]:
            if arrname and arrname in facts.ntext(rf).split("{")[0]:
                vs = [v for v in walk(rf) if v.get("k") == "VarDecl" and v.get("name") and re.search(r"\b%s\.(\w+)" % re.escape(v["name"]), c0)]
                for v in vs:
                    mm = re.match(r"^(\w+)\.empty\(\)\|\|\1\.back\(\)\.(\w+)!=%s\.(\w+)$" % re.escape(v["name"]), c0)
                    if mm:
                        elem = v["name"]

                        class _M:
                            def __init__(self, g): self.g = g
                            def group(self, k): return self.g[k]
                        m = _M({1: mm.group(1), 2: mm.group(2), 3: None, 4: mm.group(3)})
    if not m:
        raise AnalysisBroken("%s: leaf cut condition `%s` not recognised" % (cls, c0[:100]))
    if m.group(4) != key:
        res.violation(R5, tbf.rel(facts.path_of(i)), ctor["qname"], "cut-key", i["l"][1], "leaves are cut where '%s' changes, particles are sorted by '%s'" % (m.group(4), key))
    if i["b"] < srt["b"]:
        res.violation(R5, tbf.rel(facts.path_of(i)), ctor["qname"], "cut-before-sort", i["l"][1], "leaves are cut before the particles are sorted")
    then = facts.ntext(i["c"][-2] if len(i["c"]) >= 3 else i["c"][1])
    rec_rx = r"%s\.back\(\)\.%s=%s\.%s;" % (m.group(1), m.group(2), re.escape(elem), key) if elem else r"%s\.back\(\)\.%s=%s\[%s\]\.%s;" % (m.group(1), m.group(2), re.escape(arrname), m.group(3), key)
    if not re.search(rec_rx, then):
        res.violation(R5, tbf.rel(facts.path_of(i)), ctor["qname"], "cut-record", i["l"][1], "the new leaf does not record the key it was cut on")
    # accessors hand out the same members
    acc = method(facts, cls, "getSpacialIndexForLeaf")
    at = facts.ntext(tbf.body(acc))
    if not re.search(r"return%s\[\w+\]\.%s;" % (m.group(1), m.group(2)), at):
        res.violation(R5, tbf.rel(facts.path_of(acc)), acc["qname"], "leaf-accessor", acc["l"][1], "getSpacialIndexForLeaf returns `%s`, not the key the leaves were cut on" % at[:80])


def packed_key(facts, cls, ctor, body, an, srt, res, R5):
    """a comparator-less sort of integer keys: the key stored for a particle is evaluated over bit provenance (rules/bitdep.py) with the
    leaf index as a 63-bit input and anything else as another input.  Sorting the keys sorts the particles by leaf index iff every bit of
    the index (bits 0..62: Dim x (height-1) may reach 63) is copied into the key, in the same relative order, above every other bit.
    Returns True when a verdict (instance or violation) was produced."""
    import bitdep
    from bitdep import Bits
    stores = [x for x in walk(body) if x.get("k") == "BinaryOperator" and x.get("op") == "=" and facts.ntext(kids(x)[0]).startswith(an + "[")]
    if len(stores) != 1:
        return False
    E = kids(stores[0])[1]
    if not any(y.get("k") in ("CallExpr", "CXXMemberCallExpr") and tbf.callee_name(y) == "getIndexFromPosition" for y in walk(E)):
        return False

    class KeyInterp(bitdep.Interp):
        def eval(self, n, env):
            m = strip(n)
            if m.get("k") in ("CallExpr", "CXXMemberCallExpr") and tbf.callee_name(m) == "getIndexFromPosition":
                return Bits.input("index", 63)
            if m.get("k") == "DeclRefExpr" and m.get("did") not in env and m.get("name") not in self.consts and m.get("dk") in ("Var", "ParmVar"):
                return Bits.input("other:" + str(m.get("name")), 63)
            return bitdep.Interp.eval(self, n, env)
    consts = {}
    it = KeyInterp(facts, consts, cls=cls)
    for st in (facts.cls(cls) or {}).get("statics", []):
        if st.get("c"):
            try:
                v = it.eval(st["c"][0], {})
                if isinstance(v, int):
                    consts[st["name"]] = v
            except AnalysisBroken:
                pass
    try:
        out = it.eval(E, {})
    except AnalysisBroken as e:
        raise AnalysisBroken("%s: the sort key `%s` cannot be evaluated over bit provenance (%s)" % (cls, facts.ntext(E)[:80], str(e)[:120]))
    if not isinstance(out, Bits):
        return False
    pos = {}
    others = []
    for j in range(64):
        b = out.b[j]
        if isinstance(b, tuple) and b[1] and len(b[0]) == 1:
            (src, k), = tuple(b[0])
            if src == "index":
                pos.setdefault(k, j)
            else:
                others.append(j)
        elif b not in (0, 1):
            others.append(j)
    present = set()
    for j in range(64):
        b = out.b[j]
        if isinstance(b, tuple):
            present |= {k for (src, k) in b[0] if src == "index"}
    missing = [k for k in range(63) if k not in present]
    f = tbf.rel(facts.path_of(stores[0]))
    res.instance(R5, "sort key (packed)", facts.loc(stores[0]), "key `%s`: index bits kept %d of 63%s" % (facts.ntext(E)[:70], 63 - len(missing), "" if missing else ", in order, above all other bits" ))
    if missing:
        res.violation(R5, f, ctor["qname"], "sort-key-packed", stores[0]["l"][1],
                      "particles are sorted by the packed key `%s`, which does not contain bit %d of the leaf index (nor %d higher bits): a leaf index uses up to Dim x (height-1) <= 63 bits, so on trees with more than %d index bits two different leaves get the same key prefix - their particles are merged into one leaf whose box does not contain them" % (facts.ntext(E)[:80], missing[0], len(missing) - 1, missing[0]))
        return True
    order_ok = all(k in pos for k in range(63)) and all(pos[k] < pos[k + 1] for k in range(62)) and (not others or max(others) < pos[0])
    if not order_ok:
        res.violation(R5, f, ctor["qname"], "sort-key-packed-order", stores[0]["l"][1], "the packed key `%s` does not keep the bits of the leaf index in order above every other bit: the order of the keys is not the order of the leaf indices" % facts.ntext(E)[:80])
    return True


def run(res, tier):
    facts = tbf.scan("core")
    res.units.append("umbrella TU 'core': TbfTree constructor and rebuild(), TbfCellsContainer / TbfParticlesContainer constructors, TbfParticleSorter")
    res.assumptions.append("Decides structural necessary conditions only; that the loops establish the invariant for every occupancy pattern (and the arithmetic of ceil / min in the leaf partition beyond its recognised form) is not decided")
    res.rule("C07.1 header = content: first / last / count of a group header come from the first / last element and the length of the sequence its cells are filled from; cell i <- element i over [0,n); leaf records cut on the particle's key, slot k <- leaf k, offset = first particle")
    res.rule("C07.2 flush discipline (typestate E/D/F of each index buffer in the tree constructor and rebuild): no append after an emit without clear, no emit of a possibly empty buffer, no double emit, nothing un-emitted at end of scope")
    res.rule("C07.3 block bound: emit when size == the tree's block size, evaluated after each append; sorter cuts leaves with the same number by (ceil count, g*S, min((g+1)S, n)); particle ranges contiguous from 0")
    res.rule("C07.4 ancestor closure: appended value = parent of cell i of each group of level L+1, i over [0,nbCells), de-duplicated against the last appended value; levels H-2..0; leaf level 1:1 from particle groups")
    res.rule("C07.5 sorted leaves: sort comparator key = member filled from getIndexFromPosition = key the leaves are cut on, cut after the sort, accessor returns that key")
    ctors = [c for c in ctor_of(facts, "TbfTree", 2)]
    if len(ctors) != 1:
        raise AnalysisBroken("TbfTree: %d particle-taking constructors" % len(ctors))
    fns = [tbf.expand_member_helpers(facts, ctors[0]), tbf.expand_member_helpers(facts, method(facts, "TbfTree", "rebuild"))]
    header_content(facts, res)
    flush_discipline(facts, res, fns)
    closure_and_bound(facts, res, fns)
    sorter_split(facts, res)
    res.rule("C07.7 trees after rebuild: rebuild() builds the groups with the construction facts of the constructor (sorter, split, emplace / parent / index calls, conditions, level interval - rule C13.3); groups kept on a test that does not consult the sorter's split are a second definition of leaf membership")
    import c13 as _c13
    _sub13 = tbf.Result("C13")
    tbf.donor_run(res, _c13, _sub13)
    tbf.reexport(res, _sub13, ("C13.3",), "C07.7.rebuilt-as-built", min_instances=10)
