"""`coherence` engine: what the group-kernel wrapper (and the periodic top-tree executors) hand to
each kernel operator, slot by slot.

For every call `kernel.OP(a0, a1, ...)` each argument is resolved, through single-assignment locals,
to one of
  acc   : <group>.<accessor>(<index>)     with const-ness of the handle
  vec   : local vector of reference_wrappers filled by emplace_back(<group>.<accessor>(<index>))
  arr   : local C array filled by a[n] = e
  count : local counter / accessor returning a count
  level : the level parameter
  code  : member of an interaction record (relative-position code)
The frozen ROLE table (kernel interface as implemented by the shipped kernels, README "kernel")
says which slots describe the same object and which slot is the operator's output.
"""
import re

import tbf
import stages
from tbf import walk, kids, strip, AnalysisBroken

# operator -> list of (role, part, io)
ROLES = {
    "P2M": [("leaf", "header", "in"), ("leaf", "indexes", "in"), ("leaf", "data", "in"), ("leaf", "count", "in"), ("leaf", "multipole", "out")],
    "M2M": [("parent", "header", "in"), ("", "level", "in"), ("children", "multipole", "in"), ("parent", "multipole", "out"), ("children", "positions", "in"), ("children", "count", "in")],
    "M2L": [("target", "header", "in"), ("", "level", "in"), ("sources", "multipole", "in"), ("sources", "positions", "in"), ("sources", "count", "in"), ("target", "local", "out")],
    "L2L": [("parent", "header", "in"), ("", "level", "in"), ("parent", "local", "in"), ("children", "local", "out"), ("children", "positions", "in"), ("children", "count", "in")],
    "L2P": [("leaf", "header", "in"), ("leaf", "local", "in"), ("leaf", "indexes", "in"), ("leaf", "data", "in"), ("leaf", "rhs", "out"), ("leaf", "count", "in")],
    "P2P": [("source", "header", "in"), ("source", "indexes", "in"), ("source", "data", "in"), ("source", "rhs", "out"), ("source", "count", "in"),
            ("target", "header", "in"), ("target", "indexes", "in"), ("target", "data", "in"), ("target", "rhs", "out"), ("target", "count", "in"), ("pair", "code", "in")],
    "P2PTsm": [("source", "header", "in"), ("source", "indexes", "in"), ("source", "data", "in"), ("source", "count", "in"),
               ("target", "header", "in"), ("target", "indexes", "in"), ("target", "data", "in"), ("target", "rhs", "out"), ("target", "count", "in"), ("pair", "code", "in")],
    "P2PInner": [("leaf", "header", "in"), ("leaf", "indexes", "in"), ("leaf", "data", "in"), ("leaf", "rhs", "out"), ("leaf", "count", "in")],
}

# which accessor may legitimately feed which part
PART_ACCESSORS = {
    "header": {"getCellSymbData", "getLeafSymbData"},
    "indexes": {"getParticleIndexes"},
    "data": {"getParticleData"},
    "rhs": {"getParticleRhs"},
    "count": {"getNbParticlesInLeaf"},
    "multipole": {"getCellMultipole"},
    "local": {"getCellLocal"},
}


class SlotResolver:
    def __init__(self, facts, fn, cmap):
        self.facts = facts
        self.fn = fn
        self.fm = stages.FnModel(facts, fn)
        self.cmap = cmap
        self.pidx = self.fm.param_index
        self.params = fn["params"]

    def kernel_calls(self, kernel_pred):
        """calls <kernel>.OP(...) where the base satisfies kernel_pred(node)"""
        out = []
        for x in walk(self.fm.body):
            if x.get("k") not in ("CallExpr", "CXXMemberCallExpr"):
                continue
            callee = strip(kids(x)[0])
            if callee.get("k") not in ("CXXDependentScopeMemberExpr", "MemberExpr", "UnresolvedMemberExpr") or not kids(callee):
                continue
            if callee.get("name") not in ROLES:
                continue
            if kernel_pred(strip(kids(callee)[0])):
                out.append(x)
        return out

    def _acc(self, call, const_seen):
        """<group expr>.<accessor>(idx) -> dict or None"""
        if call.get("k") not in ("CallExpr", "CXXMemberCallExpr"):
            return None
        callee = strip(kids(call)[0])
        if callee.get("k") not in ("CXXDependentScopeMemberExpr", "MemberExpr", "UnresolvedMemberExpr") or not kids(callee):
            return None
        acc = callee.get("name")
        if acc not in self.cmap:
            return None
        base = strip(kids(callee)[0])
        via_const = const_seen
        if base.get("k") == "CallExpr" and tbf.callee_name(base) == "make_const":
            via_const = True
            base = strip(tbf.call_args(base)[0])
        gorig = self.fm.origin(base)
        gconst = False
        if base.get("k") == "DeclRefExpr":
            d = self.fm.decls.get(base.get("did"))
            if d is not None and d.get("t", "").startswith("const "):
                gconst = True
        args = tbf.call_args(call)
        idx = self.fm.origin(args[0]) if args else ""
        mutable = self.cmap[acc]["mutable"] and not via_const and not gconst
        return {"kind": "acc", "group": gorig, "accessor": acc, "index": idx, "const": not mutable, "node": call,
                "fields": sorted(self.cmap[acc]["fields"]), "wfields": sorted(self.cmap[acc]["wfields"])}

    def resolve(self, arg, depth=0, const_seen=False):
        if depth == 0:
            # the argument is used here: locals met while resolving it are bindings judged against this point (FnModel.origin)
            self.fm._use_pin = strip(arg).get("b")
            try:
                return self._resolve(arg, 0, const_seen)
            finally:
                self.fm._use_pin = None
        return self._resolve(arg, depth, const_seen)

    def _resolve(self, arg, depth=0, const_seen=False):
        n = strip(arg)
        if depth > 12:
            raise AnalysisBroken("slot resolution too deep at " + self.facts.loc(arg))
        k = n.get("k")
        if k == "CallExpr" and tbf.callee_name(n) == "make_const":
            return self.resolve(tbf.call_args(n)[0], depth + 1, True)
        if k in ("CXXStaticCastExpr", "CStyleCastExpr", "CXXFunctionalCastExpr") and len(kids(n)) == 1:
            inner = strip(kids(n)[0])
            if inner.get("k") in ("CallExpr", "CXXMemberCallExpr") and tbf.callee_name(inner) == "size":
                return self.resolve(inner, depth + 1, const_seen)
        if k in ("CallExpr", "CXXMemberCallExpr"):
            nm0 = tbf.callee_name(n)
            b0 = tbf.call_base(n)
            if nm0 == "data" and b0 is not None and not tbf.call_args(n) and strip(b0).get("k") in ("MemberExpr", "CXXDependentScopeMemberExpr"):
                r0 = self.resolve(b0, depth + 1, const_seen)
                if r0.get("kind") == "arr":
                    return r0
            if nm0 == "data" and b0 is not None and not tbf.call_args(n) and strip(b0).get("k") == "DeclRefExpr":
                d0 = self.fm.decls.get(strip(b0).get("did"))
                if d0 is not None:
                    r0 = self.resolve(b0, depth + 1, const_seen)
                    if r0.get("kind") == "arr":
                        return r0        # std::array local (possibly through a class alias) handed as a pointer
            if nm0 == "size" and (b0 is not None or len(tbf.call_args(n)) == 1):
                vb = strip(b0 if b0 is not None else tbf.call_args(n)[0])
                if vb.get("k") == "DeclRefExpr":
                    d0 = self.fm.decls.get(vb.get("did"))
                    if d0 is not None and "vector<" in d0.get("t", "") and "reference_wrapper" in d0.get("t", ""):
                        # the count handed with a vector of references is the vector's own length
                        return {"kind": "count", "var": None, "vecsize": vb["did"], "name": "%s.size()" % d0["name"], "node": n, "decl": None}
            a = self._acc(n, const_seen)
            if a:
                return a
            return {"kind": "expr", "origin": self.fm.origin(n), "node": n}
        if k in ("CXXDependentScopeMemberExpr", "MemberExpr") and (not kids(n) or strip(kids(n)[0]).get("k") == "CXXThisExpr"):
            # an array member of the same object filled by another member function (position codes computed once per execute()):
            # the fills are that function's, with its own origin model
            cls = self.fn.get("cls")
            fld = [f_ for c_ in self.facts.classes if c_["name"] == cls for f_ in c_.get("fields", []) if f_["name"] == n.get("name")]
            if fld and (fld[0].get("t", "").rstrip().endswith("]") or "array<" in fld[0].get("t", "").replace(" ", "") or "ChildrenPositions" in fld[0].get("t", "") or "Positions" in fld[0].get("t", "")):
                fillers = []
                for g in self.facts.methods_of(cls):
                    if g is self.fn or tbf.body(g) is None or g.get("inst"):
                        continue
                    fl = []
                    for x in walk(tbf.body(g)):
                        if x.get("k") in ("BinaryOperator", "CXXOperatorCallExpr") and x.get("op") == "=":
                            lhs = strip(kids(x)[0] if x.get("k") == "BinaryOperator" else kids(x)[1])
                            rhs = kids(x)[1] if x.get("k") == "BinaryOperator" else kids(x)[2]
                            base = None
                            if lhs.get("k") == "ArraySubscriptExpr":
                                base, idx = strip(kids(lhs)[0]), kids(lhs)[1]
                            elif lhs.get("k") == "CXXOperatorCallExpr" and lhs.get("op") == "[]" and len(kids(lhs)) >= 3:
                                base, idx = strip(kids(lhs)[1]), kids(lhs)[2]
                            if base is not None and base.get("k") in ("MemberExpr", "CXXDependentScopeMemberExpr") and base.get("name") == n.get("name"):
                                fl.append({"index": idx, "value": rhs, "node": x})
                    if fl:
                        fillers.append((g, fl))
                if len(fillers) == 1:
                    import stages as _st
                    return {"kind": "arr", "var": None, "name": n.get("name"), "fills": fillers[0][1], "node": n, "decl": None, "foreign": fillers[0][0], "filler_fm": _st.FnModel(self.facts, fillers[0][0])}
            return {"kind": "code", "origin": self.fm.origin(n), "member": n.get("name"), "node": n}
        if k in ("CXXDependentScopeMemberExpr", "MemberExpr"):
            return {"kind": "code", "origin": self.fm.origin(n), "member": n.get("name"), "node": n}
        if k == "DeclRefExpr":
            did = n.get("did")
            if did in self.pidx:
                p = self.params[self.pidx[did]]
                if "Level" in p["name"] or p["name"].lower().endswith("level"):
                    return {"kind": "level", "origin": "param%d" % self.pidx[did], "node": n}
                return {"kind": "param", "origin": "param%d" % self.pidx[did], "node": n}
            d = self.fm.decls.get(did)
            if d is None:
                return {"kind": "expr", "origin": self.fm.origin(n), "node": n}
            if did in self.fm.loop_vars:
                return {"kind": "level" if self.fm.is_level_loop(self.fm.loop_vars[did]) else "loopvar", "origin": self.fm.origin(n), "node": n}
            t = d.get("t", "")
            # a class-level alias (`using ChildrenPositions = std::array<long int, N>`) names the same type
            for c_ in self.facts.classes:
                if c_["name"] == self.fn.get("cls"):
                    for td in c_.get("typedefs", []):
                        if re.sub(r"^(const\s+)?(typename\s+)?(\w+::)*", "", t.strip()).rstrip("& ").strip() == td["name"]:
                            t = td["t"]
            if "vector<" in t and "reference_wrapper" in t:
                elems = []
                for x in walk(self.fm.body):
                    if x.get("k") in ("CallExpr", "CXXMemberCallExpr") and tbf.callee_name(x) in ("emplace_back", "push_back"):
                        vb = tbf.call_base(x)
                        if vb is not None and strip(vb).get("did") == did:
                            pin0 = getattr(self.fm, "_use_pin", None)
                            self.fm._use_pin = x.get("b")        # the element is used where it is appended
                            try:
                                e = self.resolve(tbf.call_args(x)[0], depth + 1)
                            finally:
                                self.fm._use_pin = pin0
                            e["fill_node"] = x
                            elems.append(e)
                isconst = bool(re.search(r"reference_wrapper<\s*const\b", t))
                for e in elems:
                    if e.get("kind") == "acc" and isconst:
                        e["const"] = True
                escaped = None
                if not elems:
                    for x in walk(self.fm.body):
                        if x.get("k") in ("CallExpr", "CXXMemberCallExpr") and tbf.callee_name(x) not in ("emplace_back", "push_back", "make_const", "size", "clear", "reserve") \
                                and any(strip(a_).get("did") == did for a_ in tbf.call_args(x)):
                            escaped = x
                return {"kind": "vec", "var": did, "name": d["name"], "elems": elems, "const": isconst, "node": n, "decl": d, "escaped": escaped}
            if t.endswith("]") or "std::array<" in t.replace(" ", ""):
                fills = []
                for x in walk(self.fm.body):
                    if x.get("k") in ("BinaryOperator", "CXXOperatorCallExpr") and x.get("op") == "=":
                        lhs = strip(kids(x)[0] if x.get("k") == "BinaryOperator" else kids(x)[1])
                        rhs = kids(x)[1] if x.get("k") == "BinaryOperator" else kids(x)[2]
                        if lhs.get("k") == "ArraySubscriptExpr" and strip(kids(lhs)[0]).get("did") == did:
                            fills.append({"index": kids(lhs)[1], "value": rhs, "node": x})
                        elif lhs.get("k") == "CXXOperatorCallExpr" and lhs.get("op") == "[]" and len(kids(lhs)) >= 3 and strip(kids(lhs)[1]).get("did") == did:
                            fills.append({"index": kids(lhs)[2], "value": rhs, "node": x})
                        elif lhs.get("k") == "ArraySubscriptExpr" and strip(kids(lhs)[0]).get("k") == "DeclRefExpr" and False:
                            pass
                if not fills:
                    cls = self.fn.get("cls")
                    for x in walk(self.fm.body):
                        if x.get("k") in ("CallExpr", "CXXMemberCallExpr") and cls:
                            ai = [i_ for i_, a_ in enumerate(tbf.call_args(x)) if strip(a_).get("did") == did]
                            cands = [g for g in self.facts.methods_of(cls) if g["name"] == tbf.callee_name(x) and tbf.body(g) is not None and not g.get("inst") and len(g["params"]) == len(tbf.call_args(x))]
                            if ai and len(cands) == 1:
                                g = cands[0]
                                pd = g["params"][ai[0]]["did"]
                                fl = []
                                for y in walk(tbf.body(g)):
                                    if y.get("k") in ("BinaryOperator",) and y.get("op") == "=":
                                        l_ = strip(kids(y)[0])
                                        if l_.get("k") == "ArraySubscriptExpr" and strip(kids(l_)[0]).get("did") == pd:
                                            fl.append({"index": kids(l_)[1], "value": kids(y)[1], "node": y})
                                if fl:
                                    import stages as _st
                                    return {"kind": "arr", "var": did, "name": d["name"], "fills": fl, "node": n, "decl": d, "foreign": g, "filler_fm": _st.FnModel(self.facts, g), "via_call": x}
                return {"kind": "arr", "var": did, "name": d["name"], "fills": fills, "node": n, "decl": d}
            init = kids(d)
            if self.fm.assigned.get(did) or not init or t.replace("const ", "") in ("long", "int", "unsigned long", "size_t"):
                return {"kind": "count", "var": did, "name": d["name"], "node": n, "decl": d}
            return self.resolve(init[0], depth + 1, const_seen)
        if k == "ArraySubscriptExpr":
            return {"kind": "expr", "origin": self.fm.origin(n), "node": n}
        return {"kind": "expr", "origin": self.fm.origin(n), "node": n}


def wrapper_kernel_calls(facts, cmap):
    """[(wrapper fn, SlotResolver, call node, op, [slots])] for TbfGroupKernelInterface"""
    out = []
    for fn in facts.methods_of("TbfGroupKernelInterface"):
        if fn["kind"] != "CXXMethod":
            continue
        kp = [p for p in fn["params"] if "Kernel" in p["t"]]
        if not kp:
            continue
        kdid = kp[0]["did"]
        sr = SlotResolver(facts, fn, cmap)
        for call in sr.kernel_calls(lambda b: b.get("k") == "DeclRefExpr" and b.get("did") == kdid):
            op = strip(kids(call)[0])["name"]
            slots = [sr.resolve(a) for a in tbf.call_args(call)]
            out.append((fn, sr, call, op, slots))
    return out
