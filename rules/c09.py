"""C09 — target/source mode: each target gets each source exactly once, nothing else.

Decided clauses:
 1 type level: the source tree has zero result values and empty locals, the target tree empty
   multipoles; a probe kernel sees the source header/data of P2PTsm as const and no source-result
   slot exists in the operator interface (witness: static_asserts + instantiation of both executors)
 2 who may call: target/source executors use only the one-sided near-field wrapper, build the
   neighbour list unfiltered (no upper-half filter, no self inclusion test), merge in-group part and
   self list, map the merged list onto the *source* groups with the *target* group as working group;
   M2L likewise; P2M/M2M touch only source containers, L2L/L2P only target containers
 3 the OpenMP target/source executor additionally satisfies the C03 rules (lifetime, dependencies)
"""
import re

import tbf
import stages
import effects
import taskdeps
import omp
import witness
from tbf import AnalysisBroken

LEVEL = "other"
TECHNIQUE = "type-level witnesses + who-may-call / list-flag / container-role rules over executor summaries; submission summaries (C03.a) and top-tree state rules (C12.5) re-exported"

TSM = ["TbfAlgorithmTsm", "TbfOpenmpAlgorithmTsm"]

PROBE_TU = witness.HEADERS + """
#include <type_traits>
using RealType = double; constexpr long int Dim = 3;
using Tree = TbfTreeTsm<RealType, RealType, Dim+1, double, 2, std::array<long int,1>, std::array<long int,2>>;
// 1a: there is no storage in which a source could receive a result, nor a target a multipole
static_assert(Tree::TreeClassSource::LeafGroupClass::NbRhsValuesPerParticle == 0, "source particles must carry zero result values");
static_assert(std::is_same<Tree::TreeClassSource::LeafGroupClass::RhsType, void_data>::value, "source result type must be empty");
static_assert(std::is_same<Tree::TreeClassSource::CellGroupClass::LocalClass, void_data>::value, "source cells must carry no local expansion");
static_assert(std::is_same<Tree::TreeClassTarget::CellGroupClass::MultipoleClass, void_data>::value, "target cells must carry no multipole expansion");
static_assert(Tree::TreeClassTarget::LeafGroupClass::NbRhsValuesPerParticle == 2, "target particles carry the result values");
template <class T> struct pointee_const : std::false_type {};
template <class T, size_t N> struct pointee_const<std::array<const T*, N>> : std::true_type {};
template <class T> using bare = typename std::remove_cv<typename std::remove_reference<T>::type>::type;
template <class T> constexpr bool is_const_ref = std::is_const<typename std::remove_reference<T>::type>::value;
struct ProbeKernel {
    explicit ProbeKernel(const TbfSpacialConfiguration<RealType, Dim>&){}
    ProbeKernel(const ProbeKernel&) = default;
    template <class A, class B, class C, class D, class E> void P2M(A&&, B&&, C&&, D&&, E&&){}
    // position arrays are variable-length arrays in the wrapper: not deducible, take them as pointers
    template <class A, class B, class C, class D, class F> void M2M(A&&, B&&, C&&, D&&, const long int*, F&&){}
    template <class A, class B, class C, class E, class F> void M2L(A&&, B&&, C&&, const long int*, E&&, F&&){}
    template <class A, class B, class C, class D, class F> void L2L(A&&, B&&, C&&, D&&, const long int*, F&&){}
    template <class A, class B, class C, class D, class E, class F> void L2P(A&&, B&&, C&&, D&&, E&&, F&&){}
    // 1b: the one-sided near-field operator: 10 slots, none of them a source result
    template <class SH, class SI, class SD, class SN, class TH, class TI, class TD, class TR, class TN, class CODE>
    void P2PTsm(SH&&, SI&&, SD&&, SN&&, TH&&, TI&&, TD&&, TR&&, TN&&, CODE&&){
        static_assert(is_const_ref<SH>, "source leaf header must be const in P2PTsm");
        static_assert(pointee_const<bare<SD>>::value, "source particle data must be handed as pointers to const");
        static_assert(is_const_ref<TH>, "target leaf header must be const in P2PTsm");
        static_assert(pointee_const<bare<TD>>::value, "target particle data must be handed as pointers to const");
        static_assert(std::is_same<bare<TR>, std::array<double*, 2>>::value, "target results are the only mutable particle values");
    }
};
long int witness(){
    const TbfSpacialConfiguration<RealType, Dim> configuration(4, {{1,1,1}}, {{0.5,0.5,0.5}});
    std::vector<std::array<RealType, Dim+1>> pos(10);
    Tree tree(configuration, pos, pos, 4, false);
    { TbfAlgorithmTsm<RealType, ProbeKernel> a(configuration); a.execute(tree); }
    { TbfOpenmpAlgorithmTsm<RealType, ProbeKernel> a(configuration); a.execute(tree); }
    return tree.getNbParticles();
}
"""

SRC_PART = r"each\(tree\.getParticleGroupsSource\(\)\)"
TGT_PART = r"each\(tree\.getParticleGroupsTarget\(\)\)"


def expect(res, facts, st, rule, key, ok, msg, node=None):
    node = node or st.fn
    res.instance(rule, "%s %s" % (st.fn["qname"], key), facts.loc(node), msg if ok else "VIOLATED: " + msg)
    if not ok:
        res.violation(rule, tbf.rel(facts.path_of(node)), st.fn["qname"], key, node["l"][1], msg)


def who_may_call(facts, cls, res):
    ex = stages.ExecutorSummary(facts, cls)
    R = "C09.2.who-may-call"
    near = ex.stages["P2P"]
    meths = sorted(set(c["method"] for c in near.wrapper_calls))
    expect(res, facts, near, R, "near-field-wrappers", meths == ["P2PBetweenGroupsTsm"],
           "near field of a target/source executor must use only the one-sided wrapper P2PBetweenGroupsTsm (found %s): a mutual or in-leaf wrapper would give results to sources or make targets interact" % meths)
    for c in near.wrapper_calls:
        if c["method"] != "P2PBetweenGroupsTsm":
            continue
        a = c["args"]
        expect(res, facts, near, R, "P2PTsm-arg-roles", len(a) == 4 and a[1].startswith("cb1{") and a[2].startswith("cb0{") and a[3].startswith("cb2{"),
               "P2PBetweenGroupsTsm must receive (kernel, mapped source group, working target group, mapped indexes); got %s" % [taskdeps.short(x) for x in a], c["node"])
    lists = [l for l in near.list_calls if l["name"] == "getNeighborListForBlock"]
    ok = len(lists) == 1 and re.search(r"getNeighborListForBlock\(%s,\(H-1\),false,false\)$" % TGT_PART, lists[0]["descr"]) is not None
    expect(res, facts, near, R, "neighbor-list-flags", ok,
           "neighbour list must be built for the target group at the leaf level with (upper-half filter=false, self-inclusion test=false); got %s" % [taskdeps.short(l["descr"]) for l in lists])
    mp = near.mapper_calls
    okm = False
    if len(mp) == 1:
        d = mp[0]["descr"]
        m = re.match(r"^TbfMapIndexesAndBlocks\((.*),tree\.getParticleGroupsSource\(\),std::distance\(it\(tree\.getParticleGroupsTarget\(\)\),it\(tree\.getParticleGroupsTarget\(\)\)\),tree\.getParticleGroupsTarget\(\)\)$", d)
        if m:
            lst = m.group(1)
            okm = (".second+merge[" in lst and "getNeighborListForBlock(" in lst and ".first" in lst.split("+merge[")[1]
                   and ("getSelfListForBlock(" + "each(tree.getParticleGroupsTarget())" + ")") in lst.split("+merge[")[1])
    expect(res, facts, near, R, "near-mapper", okm,
           "the out-of-group list merged with the in-group part and the self list must be mapped onto the SOURCE particle groups with the TARGET group as working group; got %s" % [taskdeps.short(m["descr"]) for m in mp])
    # M2L
    far = ex.stages["M2L"]
    meths = sorted(set(c["method"] for c in far.wrapper_calls))
    expect(res, facts, far, R, "transfer-wrappers", meths == ["M2LBetweenGroups"], "transfer pass must use only M2LBetweenGroups on (target cells, source cells) (found %s)" % meths)
    for c in far.wrapper_calls:
        a = c["args"]
        expect(res, facts, far, R, "M2L-arg-roles", len(a) == 5 and a[0] == "L" and a[2].startswith("cb0{") and a[3].startswith("cb1{") and a[4].startswith("cb2{"),
               "M2LBetweenGroups must receive (level, kernel, working target group, mapped source group, mapped indexes); got %s" % [taskdeps.short(x) for x in a], c["node"])
    okm = False
    if len(far.mapper_calls) == 1:
        d = far.mapper_calls[0]["descr"]
        m = re.match(r"^TbfMapIndexesAndBlocks\((.*),tree\.getCellGroupsAtLevelSource\(L\),std::distance\(it\(tree\.getCellGroupsAtLevelTarget\(L\)\),it\(tree\.getCellGroupsAtLevelTarget\(L\)\)\),tree\.getCellGroupsAtLevelTarget\(L\)\)$", d)
        if m:
            lst = m.group(1)
            okm = re.search(r"getInteractionListForBlock\(each\(tree\.getCellGroupsAtLevelTarget\(L\)\),L,false\)\.second\+merge\[.*getInteractionListForBlock\(each\(tree\.getCellGroupsAtLevelTarget\(L\)\),L,false\)\.first\]$", lst) is not None
    expect(res, facts, far, R, "transfer-mapper", okm,
           "the interaction list of the target group (no in-group shortcut) merged with its in-group part must be mapped onto the SOURCE cells of the same level; got %s" % [taskdeps.short(m["descr"]) for m in far.mapper_calls])
    # container roles of the other stages
    roles = {"P2M": ("Source", "Source"), "M2M": ("Source", "Source"), "L2L": ("Target", "Target"), "L2P": ("Target", "Target")}
    for stg, (r1, r2) in roles.items():
        st = ex.stages[stg]
        for c in st.wrapper_calls:
            groups = [a for a in c["args"] if a.startswith("each(tree.")]
            ok = len(groups) == 2 and all(re.match(r"^each\(tree\.get\w+%s\(" % r1, g) for g in groups)
            expect(res, facts, st, R, stg + "-containers", ok, "%s must work on the %s tree only; got %s" % (stg, r1.lower(), [taskdeps.short(g) for g in groups]), c["node"])
    return ex


def run(res, tier):
    facts = tbf.scan("core")
    res.units.append("umbrella TU 'core': TbfAlgorithmTsm, TbfOpenmpAlgorithmTsm (+ TbfTreeTsm through the witness)")
    res.rule("C09.1 type level: source tree has 0 result values / void locals, target tree void multipoles; P2PTsm has no source-result slot; source header/data const at the kernel")
    res.rule("C09.2 who may call: only the one-sided near-field wrapper; unfiltered neighbour list + in-group part + self list mapped on SOURCE groups with the TARGET working group; M2L likewise; P2M/M2M source-only, L2L/L2P target-only")
    res.rule("C09.3 OpenMP target/source executor: capture lifetime and dependencies (C03.b/c/d/e rules)")
    res.rule("C09.4 each execution depends on the two trees and the kernels only: stage functions keep nothing about the trees in the executor (interaction lists remembered across execute() calls cannot be invalidated when a tree is rebuilt)")
    res.rule("C09.6 after a move / rebuild cycle both trees start from zeroed expansions: the target/source rebuild rebuilds both trees unconditionally (rule C13.4 on TbfTreeTsm::rebuild)")
    import c13 as _c13
    _sub = tbf.Result("C13")
    tbf.donor_run(res, _c13, _sub)
    tbf.reexport(res, _sub, ("C13.4.tsm",), "C09.6.both-trees-rebuilt", min_instances=1)
    res.rule("C09.7 the OpenMP target/source executor applies per stage what the sequential target/source reference applies: same wrapper applications, level interval, guards, mappers and walk over the groups (rule C03.a on TbfOpenmpAlgorithmTsm)")
    import c03 as _c03, stages as _stages
    _sub3 = tbf.Result("C03")
    try:
        _c03.same_submissions(facts, _stages.ExecutorSummary(facts, "TbfOpenmpAlgorithmTsm"), _stages.ExecutorSummary(facts, "TbfAlgorithmTsm"), _sub3)
        tbf.reexport(res, _sub3, ("C03.a",), "C09.7.same-work-as-reference", min_instances=6)
    except AnalysisBroken as e_:
        # the stage summaries cannot be built: the clauses below speak first (deferred: exit 2 only if none of them has a verdict)
        res.deferred = getattr(res, "deferred", []) + [e_]
    res.rule("C09.8 periodic target/source run: the expansions of the virtual levels above the root, which carry every far image of the sources to the targets, are members of the top-tree executor written only through the operators (rule C12.5 on TbfAlgorithmPeriodicTopTreeTsm) - kept in a local or reset per call, a staged full execution hands the targets the 27 nearest images only")
    import c12 as _c12
    _sub12 = tbf.Result("C12")
    _c12.toptree_state(facts, "TbfAlgorithmPeriodicTopTreeTsm", _sub12)
    tbf.reexport(res, _sub12, ("C12.5",), "C09.8.far-images-reach-the-targets", min_instances=1)
    import c12
    before = len(res.violations)
    for cls in TSM:
        c12.no_tree_derived_state(facts, cls, res, R="C09.4.stateless-executor")
    stateful = len(res.violations) > before
    res.rule("C09.5 both trees hold all their particles whatever the other tree looks like: the automatic block size of the target/source tree is clamped to >= 1 for each tree (a size of 0 builds a tree without groups - every target then misses every source of that tree)")
    import c08
    c08.block_size_positive(facts, res, R="C09.5.block-size-positive", only=("EstimateTsm",))
    n = 0
    classes = list(TSM)
    for cls in classes:
        try:
            ex = who_may_call(facts, cls, res)
        except AnalysisBroken:
            if not stateful:
                raise
            # the lists are routed through the remembered state reported by C09.4: the who-may-call rule cannot follow them
        n += 1
    # 3
    cmap = effects.container_map(facts)
    weff = effects.wrapper_effects(facts, cmap)
    import c03
    ex = stages.ExecutorSummary(facts, "TbfOpenmpAlgorithmTsm")
    ntasks = 0
    for name, st in ex.stages.items():
        taskdeps.check_stage(st, weff, cmap, res, rule="C09.3")
    for fn in facts.methods_of("TbfOpenmpAlgorithmTsm"):
        ntasks += omp.check_capture_lifetime(facts, fn, res, pid_rule="C09.3")
    res.floor("C09.3", ntasks, 6, "omp tasks in the target/source executor")
    # one creator: near and far field tasks of a target group accumulate into the same particle results; their depend clauses order
    # them only if all of them are generated by the same construct (rule C03.e)
    sub_e = tbf.Result("C03")
    c03.join_rule(facts, ex, sub_e, "omp")
    for v in sub_e.violations:
        res.violation("C09.3.join", v["file"], v["function"], v["key"], v["line"], v["msg"])
    res.instance("C09.3.join", "TbfOpenmpAlgorithmTsm::execute", "src/algorithms/openmp/tbfopenmpalgorithmtsm.hpp", "%d stage calls inside one creating construct of the joining region" % len([i for i in sub_e.instances if i["rule"] == "C03.e.join"]))
    # the slot table of the one-sided operator has no source result
    import coherence
    roles = coherence.ROLES["P2PTsm"]
    res.instance("C09.1.no-source-result-slot", "P2PTsm role table", "rules/coherence.py", str(roles))
    for fn, sr, call, op, slots in coherence.wrapper_kernel_calls(facts, cmap):
        if op != "P2PTsm":
            continue
        src = [s for (role, part, io), s in zip(roles, slots) if role == "source"]
        bad = [s for s in src if s.get("kind") == "acc" and s.get("accessor") == "getParticleRhs"]
        res.instance("C09.1.no-source-result-slot", fn["qname"], facts.loc(call), "source slots: %s" % [s.get("accessor", s.get("kind")) for s in src])
        if bad or len(slots) != len(roles):
            res.violation("C09.1.no-source-result-slot", tbf.rel(facts.path_of(call)), fn["qname"], "P2PTsm", call["l"][1], "the one-sided near-field call hands the kernel a source-result handle")
    if tier in ("quick", "thorough"):      # the Specx / StarPU executors (declaration stubs) are analysed on every run: the unit tests never compile them, so nothing else would notice a change there
        sf = tbf.scan("specx")
        res.units.append("umbrella TU 'specx' (declaration stub): TbfSmSpecxAlgorithmTsm")
        who_may_call(sf, "TbfSmSpecxAlgorithmTsm", res)
    # 1
    for comp in (("g++",) if tier == "quick" else ("g++", "clang++")):
        rc, err = tbf.compile_witness(PROBE_TU, compiler=comp, name="c09_probe.cpp", max_errors=5)
        res.instance("C09.1.type-level-witness", comp, "witness:c09_probe", "5 static_asserts on TbfTreeTsm + probe kernel through TbfAlgorithmTsm and TbfOpenmpAlgorithmTsm")
        if rc != 0:
            f, line, msg, _ = witness.first_src_error(err)
            allerr = [l for l in err.splitlines() if "error" in l]
            res.violation("C09.1.type-level-witness", f, "<witness c09_probe>", "%s:%d" % (f, line), line, "type-level guarantee of target/source mode broken: " + (allerr[0] if allerr else msg)[:300])
