"""`idxdomain` engine: index-domain agreement in the leaf-visiting lambdas of TbfTree
(getAllParticlesData, getAllParticlesRhs, rebuild).

Domains:   orig            original (insertion) particle index, bounded by the number of particles
           value(N)        value index of a per-particle tuple, bounded by the template constant N
           leafpart        position inside the visited leaf, bounded by leafHeader.nbParticles
Every subscripted 2-D object has a declared extent per dimension, every subscript expression a
domain; the rule is  domain == extent  per dimension, and a copy statement relates one
(orig, value(N)) object with one (value(N), leafpart) object through the same loop variables.
"""
import re

import tbf
from tbf import walk, kids, strip, AnalysisBroken


def type_extent(t):
    """declared type text -> (outer, inner) extents or None"""
    t = t.replace(" ", "")
    m = re.match(r"^(?:const)?std::unique_ptr<std::array<(\w+),(\w+)>\[\]>$", t) or re.match(r"^(?:const)?std::vector<std::array<(\w+),(\w+)>>$", t)
    if m:
        return (("orig",), ("value", m.group(2))), m.group(1)
    m = re.match(r"^(?:const)?std::array<(?:const)?(\w+)\*,(\w+)>$", t)
    if m:
        return (("value", m.group(2)), ("leafpart",)), m.group(1)
    return None


def decl_extent(facts, fn, d):
    """extent of a declared object: from its type text, or - for `auto x = std::make_unique<T[]>(n)` - from the allocated type
    (a local alias `using T = std::array<V, N>` of the function is resolved)"""
    te = type_extent(d.get("t", ""))
    if te is not None or not kids(d):
        return te
    it = facts.ntext(kids(d)[0])
    m = re.search(r"make_unique<(.+)\[\]>\(", it)
    if not m:
        return None
    ty = m.group(1)
    if re.match(r"^\w+$", ty):
        al = re.search(r"using%s=([^;]+);" % re.escape(ty), facts.ntext(tbf.body(fn)))
        if al:
            ty = al.group(1)
    return type_extent("std::unique_ptr<%s[]>" % ty)


class LambdaModel:
    def __init__(self, facts, fn, lam):
        self.facts = facts
        self.fn = fn
        self.lam = lam
        self.params = lam.get("params", [])
        if len(self.params) < 4:
            raise AnalysisBroken("%s: leaf visitor lambda with %d parameters (4 expected: header, indexes, data, rhs)" % (facts.loc(lam), len(self.params)))
        self.header = self.params[0]["did"]
        self.indexes = self.params[1]["did"]
        self.loopvars = {}
        for x in walk(lam):
            if x.get("k") == "ForStmt":
                init, cond, inc, _b = x["c"]
                v = [d for d in kids(init) if d.get("k") == "VarDecl"] if init else []
                if len(v) != 1 or cond is None:
                    continue
                cond = strip(cond)
                if cond.get("k") != "BinaryOperator" or cond.get("op") != "<":
                    continue
                a, b = kids(cond)
                if strip(a).get("did") != v[0]["did"]:
                    continue
                start = strip(kids(v[0])[0]) if kids(v[0]) else None
                if start is None or start.get("k") != "IntegerLiteral" or start.get("val") != 0:
                    continue
                inc = strip(inc) if inc else None
                if inc is None or inc.get("op") != "++":
                    continue
                b = strip(b)
                if b.get("k") == "DeclRefExpr" and b.get("dk") in ("NonTypeTemplateParm", "Var") and not b.get("local"):
                    self.loopvars[v[0]["did"]] = ("value", b["name"])
                elif b.get("k") in ("CXXDependentScopeMemberExpr", "MemberExpr") and b.get("name") == "nbParticles" and kids(b) and strip(kids(b)[0]).get("did") == self.header:
                    self.loopvars[v[0]["did"]] = ("leafpart",)

    def domain(self, e):
        e = strip(e)
        if e.get("k") == "DeclRefExpr" and e.get("did") in self.loopvars:
            return self.loopvars[e["did"]]
        if e.get("k") == "ArraySubscriptExpr":
            a, b = kids(e)
            if strip(a).get("did") == self.indexes and self.domain(b) == ("leafpart",):
                return ("orig",)
        return ("unknown", self.facts.ntext(e))


def outer_decl_types(facts, fn):
    out = {}
    for x in walk(tbf.body(fn)):
        if x.get("k") in ("VarDecl", "ParmVarDecl"):
            out[x["did"]] = x
    return out


def check_function(facts, fn, res, rule, nbparticles_field="nbParticles"):
    """examines every leaf-visitor lambda (argument of applyToAllLeaves) of fn"""
    decls = outer_decl_types(facts, fn)
    n = 0
    slot_offsets = {}
    b = tbf.body(fn)
    for call in walk(b):
        if call.get("k") not in ("CallExpr", "CXXMemberCallExpr") or tbf.callee_name(call) != "applyToAllLeaves":
            continue
        lams = [strip(a) for a in tbf.call_args(call) if strip(a).get("k") == "LambdaExpr"]
        for lam in lams:
            lm = LambdaModel(facts, fn, lam)
            recognised = set()
            for x in walk(lam):
                if x.get("k") != "BinaryOperator" or x.get("op") != "=":
                    continue
                sides = []
                for s in kids(x):
                    s = strip(s)
                    if s.get("k") != "ArraySubscriptExpr":
                        break
                    inner_idx = kids(s)[1]
                    base = strip(kids(s)[0])
                    if base.get("k") != "ArraySubscriptExpr":
                        break
                    outer_idx = kids(base)[1]
                    obj = strip(kids(base)[0])
                    if obj.get("k") != "DeclRefExpr":
                        break
                    d = decls.get(obj["did"])
                    te = decl_extent(facts, fn, d) if d else None
                    if te is None:
                        break
                    sides.append({"obj": obj, "decl": d, "extent": te[0], "elem": te[1], "dom": (lm.domain(outer_idx), lm.domain(inner_idx)),
                                  "vars": (facts.ntext(outer_idx), facts.ntext(inner_idx))})
                if len(sides) != 2:
                    continue
                recognised.add(id(x))
                n += 1
                def render(e):
                    # from the nodes, not the source text: inside a spliced helper the source spells the helper's parameter names
                    e = strip(e)
                    if e.get("k") == "ArraySubscriptExpr":
                        return "%s[%s]" % (render(kids(e)[0]), render(kids(e)[1]))
                    if e.get("k") == "DeclRefExpr" and e.get("name"):
                        return e["name"]
                    return facts.ntext(e)
                key = "%s = %s" % (render(kids(x)[0]), render(kids(x)[1]))
                res.instance(rule, "%s @%d" % (fn["qname"], x["l"][1]), facts.loc(x),
                             "%s ; extents %s / %s ; domains %s / %s" % (key, sides[0]["extent"], sides[1]["extent"], sides[0]["dom"], sides[1]["dom"]))
                for s in sides:
                    for dim, (ext, dom) in enumerate(zip(s["extent"], s["dom"])):
                        if ext != dom:
                            res.violation(rule, tbf.rel(facts.path_of(x)), fn["qname"], "%s[dim%d]" % (s["obj"]["name"], dim), x["l"][1],
                                          "dimension %d of '%s' has extent %s but is subscripted with an index of domain %s (%s): entry i would not hold the values of the particle inserted at position i"
                                          % (dim, s["obj"]["name"], fmt(ext), fmt(dom), s["vars"][dim]))
                # shape: exactly one global (orig,value) object and one per-leaf (value,leafpart) object, same N
                kinds = sorted(s["extent"][0][0] for s in sides)
                if kinds != ["orig", "value"]:
                    res.violation(rule, tbf.rel(facts.path_of(x)), fn["qname"], "shape", x["l"][1], "copy does not relate one per-particle array with one per-leaf array")
                else:
                    g = [s for s in sides if s["extent"][0][0] == "orig"][0]
                    l = [s for s in sides if s["extent"][0][0] == "value"][0]
                    if g["elem"] != l["elem"]:
                        res.violation(rule + ".elem-type", tbf.rel(facts.path_of(g["decl"])), fn["qname"], g["obj"]["name"], g["decl"]["l"][1],
                                      "per-particle staging array '%s' stores %s but the tree holds %s values: copies are not bit-exact when the two types differ" % (g["obj"]["name"], g["elem"], l["elem"]))
                    if g["extent"][1] != l["extent"][0]:
                        res.violation(rule, tbf.rel(facts.path_of(x)), fn["qname"], "tuple-size", x["l"][1],
                                      "per-particle tuple size %s differs from the per-leaf array count %s" % (fmt(g["extent"][1]), fmt(l["extent"][0])))
            # every other use of the per-leaf pointer rows (data / results) inside a leaf visitor
            in_copy = set()
            for x in walk(lam):
                if x.get("k") == "BinaryOperator" and x.get("op") == "=" and id(x) in recognised:
                    for y in walk(x):
                        in_copy.add(id(y))
            ptr_params = [p["did"] for p in lm.params[2:4]]
            tbf.link_parents(lam)
            for x in walk(lam):
                if x.get("k") == "DeclRefExpr" and x.get("did") in ptr_params and id(x) not in in_copy:
                    if any(a.get("k") in ("CStyleCastExpr", "CXXStaticCastExpr", "CXXFunctionalCastExpr") and a.get("cast") == "ToVoid" for a in tbf.ancestors(x)):
                        continue      # `(void)x;` silences an unused-parameter warning, nothing is moved
                    call = None
                    for a in tbf.ancestors(x):
                        if a.get("k") in ("CallExpr", "CXXMemberCallExpr"):
                            call = a
                            break
                        if a.get("k") in ("CompoundStmt",):
                            break
                    nm = tbf.callee_name(call) if call is not None else None
                    if nm in ("insert", "copy", "copy_n", "memcpy", "memmove", "assign", "move", "fill", "fill_n"):
                        res.violation(rule, tbf.rel(facts.path_of(x)), fn["qname"], "bulk:%s@%d" % (x.get("name"), x["l"][1]), x["l"][1],
                                      "per-leaf values '%s' are moved in bulk (%s) in storage order; values must be staged and restored under the particle's original index, storage order changes when particles move" % (x.get("name"), nm))
                    elif call is not None and helper_copy(facts, fn, lm, call, decls, res, rule):
                        n += 1
                    elif lambda_copy(facts, fn, lm, lam, decls, res, rule, slot_offsets):
                        n += 1
                    else:
                        raise AnalysisBroken("%s: use of the per-leaf pointer array '%s' outside a recognised copy statement" % (facts.loc(x), x.get("name")))
            # allocation extent of the global objects captured by the lambda
    # group-wise copies: `for(auto& g : particleGroups) helper(per-particle array, g.getParticleIndexes(0), g.getNbParticles(), g.getParticleData/Rhs(0))`
    # - the rows of leaf 0 of a group are the rows of the whole group (leaves are consecutive ranges of them), so the helper sees one
    # "leaf" holding all the group's particles
    for fr in walk(b):
        if fr.get("k") != "CXXForRangeStmt" or len(kids(fr)) < 3 or kids(fr)[0] is None or kids(fr)[0].get("k") != "VarDecl":
            continue
        rng = strip(kids(fr)[1])
        if rng.get("name") != "particleGroups":
            continue
        gv = kids(fr)[0]["did"]
        for call in walk(kids(fr)[-1]):
            if call.get("k") in ("CallExpr", "CXXMemberCallExpr") and any(g_["name"] == tbf.callee_name(call) for g_ in facts.methods_of(fn.get("cls")) if tbf.body(g_) is not None) \
                    and not (tbf.call_base(call) is not None and strip(tbf.call_base(call)).get("did") == gv):
                if group_helper_copy(facts, fn, call, gv, decls, res, rule):
                    n += 1
    # allocation sizes
    for d in decls.values():
        te = decl_extent(facts, fn, d) if d.get("k") == "VarDecl" else type_extent(d.get("t", ""))
        if te is None or te[0][0][0] != "orig" or d.get("k") != "VarDecl":
            continue
        ok = False
        for x in walk(d):
            if x.get("k") == "MemberExpr" and x.get("name") == nbparticles_field:
                ok = True
        res.instance(rule + ".alloc", "%s %s" % (fn["qname"], d["name"]), facts.loc(d), "allocated with %s elements: %s" % (nbparticles_field, ok))
        if not ok:
            res.violation(rule + ".alloc", tbf.rel(facts.path_of(d)), fn["qname"], d["name"], d["l"][1],
                          "per-particle array '%s' is not allocated with one entry per particle (%s)" % (d["name"], nbparticles_field))
    return n


_helper_done = {}


def helper_copy(facts, fn, lm, call, decls, res, rule):
    """the leaf visitor hands its arrays to a helper of the same class: the helper's copies are summarised by the copy-relation
    engine and must relate DEST[IDX[p]][v] with LEAF[v][p] for the same p and v, p sweeping the leaf once"""
    import sympy
    import copyrel
    key = (id(call),)
    if key in _helper_done:
        return _helper_done[key]
    nm = tbf.callee_name(call)
    args = tbf.call_args(call)
    cands = [g for g in facts.methods_of(fn.get("cls")) if g["name"] == nm and tbf.body(g) is not None and len(g["params"]) == len(args)]
    if len(cands) != 1:
        _helper_done[key] = False
        return False
    g = cands[0]
    N = sympy.Symbol("N", integer=True, positive=True)
    bind = {}
    roles = {}
    for p_, a in zip(g["params"], args):
        a0 = strip(a)
        base = a0
        if base.get("k") in ("CallExpr", "CXXMemberCallExpr") and tbf.callee_name(base) in ("get", "data") and tbf.call_base(base) is not None:
            base = strip(tbf.call_base(base))
        if base.get("k") == "DeclRefExpr" and base.get("did") in decls:
            te = decl_extent(facts, fn, decls[base["did"]])
            if te is not None and te[0][0][0] == "orig":
                bind[p_["did"]] = copyrel.Obj("DEST", base["name"])
                roles["DEST"] = (base, te)
                continue
        if a0.get("k") == "DeclRefExpr" and a0.get("did") == lm.indexes:
            bind[p_["did"]] = copyrel.Obj("IDX", a0["name"])
            continue
        if a0.get("k") == "DeclRefExpr" and a0.get("did") in [q["did"] for q in lm.params[2:4]]:
            bind[p_["did"]] = copyrel.Obj("LEAF", a0["name"])
            roles["LEAF"] = (a0, type_extent([q for q in lm.params if q["did"] == a0["did"]][0].get("t", "")))
            continue
        if a0.get("k") in ("MemberExpr", "CXXDependentScopeMemberExpr") and a0.get("name") == "nbParticles" and kids(a0) and strip(kids(a0)[0]).get("did") == lm.header:
            bind[p_["did"]] = N
            continue
        if a0.get("k") == "DeclRefExpr" and a0.get("dk") in ("NonTypeTemplateParm", "Var") and not a0.get("local"):
            # a compile-time constant of the class (the number of values per particle) handed down as a loop bound
            bind[p_["did"]] = sympy.Symbol(a0["name"], integer=True, positive=True)
            continue
        raise AnalysisBroken("%s: argument `%s` of the copy helper %s is not one of (per-particle array, original indexes, per-leaf rows, particle count)" % (facts.loc(a), facts.ntext(a)[:50], nm))
    it = copyrel.Interp(facts, g, bind)
    it.run(tbf.body(g))
    if not it.out:
        raise AnalysisBroken("%s: the copy helper %s copies nothing the engine recognises" % (facts.loc(call), nm))
    f = tbf.rel(facts.path_of(g))
    for ft in it.out:
        d, sidx = ft.dest_obj, ft.src
        gather = d.role == "DEST"
        if gather:
            didx = ft.dest_idx
            if not (isinstance(sidx, copyrel.Load) and sidx.obj.role == "LEAF" and len(didx) == 2 and isinstance(didx[0], copyrel.Load) and didx[0].obj.role == "IDX"):
                res.violation(rule, f, g["qname"], "shape@%d" % ft.node["l"][1], ft.node["l"][1], "the helper's copy `%s` does not relate one per-particle record (under its original index) with one per-leaf value" % facts.ntext(ft.node)[:80])
                continue
            p1, v1 = didx[0].idx[0], didx[1]
            v2, p2 = sidx.idx
        else:
            if not (d.role == "LEAF" and len(ft.dest_idx) == 2 and isinstance(sidx, copyrel.Load) and sidx.obj.role == "DEST" and isinstance(sidx.idx[0], copyrel.Load)):
                res.violation(rule, f, g["qname"], "shape@%d" % ft.node["l"][1], ft.node["l"][1], "the helper's copy `%s` does not relate one per-leaf value with one per-particle record" % facts.ntext(ft.node)[:80])
                continue
            v1, p1 = ft.dest_idx
            p2, v2 = sidx.idx[0].idx[0], sidx.idx[1]
        res.instance(rule, "%s via %s @%d" % (fn["qname"], nm, ft.node["l"][1]), facts.loc(ft.node),
                     "%s[%s[%s]][%s] %s %s[%s][%s]" % ("DEST", "IDX", p1, v1, "<-" if gather else "->", "LEAF", v2, p2))
        if sympy.simplify(p1 - p2) != 0:
            res.violation(rule, f, g["qname"], "position@%d" % ft.node["l"][1], ft.node["l"][1],
                          "the record written under the original index of the particle at leaf position `%s` receives the values stored at leaf position `%s`: "
                          "entry i does not hold the values of the particle inserted at position i (leaves with more particles than one tile)" % (p1, p2))
            continue
        if sympy.simplify(v1 - v2) != 0:
            res.violation(rule, f, g["qname"], "value@%d" % ft.node["l"][1], ft.node["l"][1], "value slot `%s` of the record receives value row `%s`" % (v1, v2))
            continue
        if not copyrel.position_sweeps(sympy.sympify(p1), ft.loops, N):
            raise AnalysisBroken("%s: cannot show that leaf position `%s` sweeps [0, number of particles of the leaf) exactly once" % (facts.loc(ft.node), p1))
        # the value index sweeps the value extent of both arrays (a bound handed down as an argument must be the constant the arrays were declared with)
        for lsym, llo, lhi, lstep, lnode in ft.loops:
            if sympy.sympify(v1) == lsym and isinstance(lhi, sympy.Symbol) and str(lhi) != "N":
                for role in ("DEST", "LEAF"):
                    if role in roles and roles[role][1] is not None:
                        ext = roles[role][1][0]
                        want = ext[1] if role == "DEST" else ext[0]
                        if isinstance(want, tuple) and want[0] == "value" and want[1] != str(lhi):
                            res.violation(rule, tbf.rel(facts.path_of(call)), fn["qname"], "value-range@%d" % call["l"][1], call["l"][1],
                                          "the helper %s copies value rows [0, %s) but '%s' holds %s values per particle: values are dropped or read past the rows" % (nm, lhi, roles[role][0]["name"], want[1]))
    _helper_done[key] = True
    return True


def group_helper_copy(facts, fn, call, gv, decls, res, rule):
    import sympy
    import copyrel
    nm = tbf.callee_name(call)
    args = tbf.call_args(call)
    cands = [g for g in facts.methods_of(fn.get("cls")) if g["name"] == nm and tbf.body(g) is not None and len(g["params"]) == len(args)]
    if len(cands) != 1:
        return False
    g = cands[0]
    N = sympy.Symbol("N", integer=True, positive=True)
    bind = {}
    elem_leaf = None
    dest = None
    for p_, a in zip(g["params"], args):
        a0 = strip(a)
        base = a0
        if base.get("k") in ("CallExpr", "CXXMemberCallExpr") and tbf.callee_name(base) in ("get", "data") and tbf.call_base(base) is not None and not tbf.call_args(base):
            base = strip(tbf.call_base(base))
        if base.get("k") == "DeclRefExpr" and base.get("did") in decls:
            te = decl_extent(facts, fn, decls[base["did"]])
            if te is not None and te[0][0][0] == "orig":
                bind[p_["did"]] = copyrel.Obj("DEST", base["name"])
                dest = (base, te)
                continue
        if a0.get("k") in ("CallExpr", "CXXMemberCallExpr") and tbf.call_base(a0) is not None and strip(tbf.call_base(a0)).get("did") == gv:
            acc = tbf.callee_name(a0)
            aa = tbf.call_args(a0)
            zero = len(aa) == 1 and strip(aa[0]).get("k") == "IntegerLiteral" and strip(aa[0]).get("val") == 0
            if acc == "getParticleIndexes" and zero:
                bind[p_["did"]] = copyrel.Obj("IDX", "indexes of the group")
                continue
            if acc in ("getParticleData", "getParticleRhs") and zero:
                bind[p_["did"]] = copyrel.Obj("LEAF", acc)
                elem_leaf = acc
                continue
            if acc == "getNbParticles" and not aa:
                bind[p_["did"]] = N
                continue
        raise AnalysisBroken("%s: argument `%s` of the group-wise copy helper %s is not one of (per-particle array, the group's original indexes, the group's rows, the group's particle count)" % (facts.loc(a), facts.ntext(a)[:50], nm))
    if dest is None or elem_leaf is None:
        return False
    it = copyrel.Interp(facts, g, bind)
    it.run(tbf.body(g))
    if not it.out:
        raise AnalysisBroken("%s: the copy helper %s copies nothing the engine recognises" % (facts.loc(call), nm))
    f = tbf.rel(facts.path_of(g))
    for ft in it.out:
        d, sidx = ft.dest_obj, ft.src
        if d.role != "DEST":
            raise AnalysisBroken("%s: group-wise scatter not modelled" % facts.loc(ft.node))
        didx = ft.dest_idx
        cond = [c for c in it.conditional if any(x is ft.node for x in walk(c))]
        under = (" (on the path taken when `%s` %s)" % (facts.ntext([y for y in kids(cond[-1]) if y.get("k") != "DeclStmt"][0])[:70], "holds" if any(x is ft.node for x in walk([y for y in kids(cond[-1]) if y.get("k") != "DeclStmt"][1])) else "does not hold")) if cond else ""
        if not (isinstance(sidx, copyrel.Load) and sidx.obj.role == "LEAF" and len(didx) == 2 and isinstance(didx[0], copyrel.Load) and didx[0].obj.role == "IDX"):
            res.violation(rule, f, g["qname"], "shape@%d" % ft.node["l"][1], ft.node["l"][1],
                          "the copy `%s`%s writes the per-particle record number `%s`, which is not the original index stored for the copied position: the order of the particles inside a group is the sorter's, not the insertion order, so entry i does not hold the values of the particle inserted at position i" % (facts.ntext(ft.node)[:70], under, didx[0]))
            continue
        p1, v1 = didx[0].idx[0], didx[1]
        v2, p2 = sidx.idx
        res.instance(rule, "%s via %s @%d" % (fn["qname"], nm, ft.node["l"][1]), facts.loc(ft.node), "DEST[IDX[%s]][%s] <- GROUP[%s][%s]%s" % (p1, v1, v2, p2, under))
        if sympy.simplify(p1 - p2) != 0:
            res.violation(rule, f, g["qname"], "position@%d" % ft.node["l"][1], ft.node["l"][1], "the record written under the original index of position `%s` receives the values stored at position `%s`%s" % (p1, p2, under))
            continue
        if sympy.simplify(v1 - v2) != 0:
            res.violation(rule, f, g["qname"], "value@%d" % ft.node["l"][1], ft.node["l"][1], "value slot `%s` of the record receives value row `%s`%s" % (v1, v2, under))
            continue
        if not copyrel.position_sweeps(sympy.sympify(p1), ft.loops, N):
            raise AnalysisBroken("%s: cannot show that position `%s` sweeps [0, number of particles of the group) exactly once" % (facts.loc(ft.node), p1))
    return True


_lambda_done = {}


def lambda_copy(facts, fn, lm, lam, decls, res, rule, slot_offsets):
    """a leaf visitor that copies through reference locals, combined records or configuration switches: its copies are summarised by
    the copy-relation engine.  Required: the record of the particle at leaf position p is the one under IDX[p]; the staging
    element type equals the element type of the rows it is copied from / to; the value slot is the row index plus a constant
    (a combined record), the same constant when the values are scattered back; for the export functions (C17) the constant is 0."""
    import sympy
    import copyrel
    key = id(lam)
    if key in _lambda_done:
        return _lambda_done[key]
    N = sympy.Symbol("N", integer=True, positive=True)
    bind = {}
    dest_info = {}
    for x in walk(lam):
        if x.get("k") == "DeclRefExpr" and x.get("did") in decls and x.get("did") not in bind:
            d = decls[x["did"]]
            te = decl_extent(facts, fn, d) if d.get("k") == "VarDecl" else None
            if te is not None and te[0][0][0] == "orig":
                bind[x["did"]] = copyrel.Obj("DEST", d["name"])
                dest_info[d["name"]] = (d, te)
    leaf_info = {}
    bind[lm.indexes] = copyrel.Obj("IDX", "indexes")
    for q in lm.params[2:4]:
        bind[q["did"]] = copyrel.Obj("LEAF", q["name"] or "rows%d" % q["did"])
        leaf_info[q["name"] or "rows%d" % q["did"]] = type_extent(q.get("t", ""))
    hdr = lm.header

    class I2(copyrel.Interp):
        def ev(self, n):
            n0 = strip(n)
            if n0.get("k") in ("MemberExpr", "CXXDependentScopeMemberExpr") and n0.get("name") == "nbParticles" and kids(n0) and strip(kids(n0)[0]).get("did") == hdr:
                return N
            if n0.get("k") == "DeclRefExpr" and n0.get("dk") == "Var" and n0.get("did") not in self.env and n0.get("did") not in self.buffers:
                d0 = decls.get(n0.get("did"))
                if d0 is not None and d0.get("constexpr") and kids(d0):
                    return self.ev(kids(d0)[0])
            return copyrel.Interp.ev(self, n)
    it = I2(facts, fn, bind)
    lbody = [y for y in lam.get("c", []) if y is not None and y.get("k") == "CompoundStmt"]
    if not lbody:
        _lambda_done[key] = False
        return False
    it.run(lbody[0])
    if not it.out:
        _lambda_done[key] = False
        return False
    f = tbf.rel(facts.path_of(fn))
    strict = rule.startswith("C17")
    for ft in it.out:
        d, src = ft.dest_obj, ft.src
        if d.role == "DEST" and isinstance(src, copyrel.Load) and src.obj.role == "LEAF" and len(ft.dest_idx) == 2 and isinstance(ft.dest_idx[0], copyrel.Load):
            direction, dest_name, leaf_name = "gather", d.name, src.obj.name
            p1, v1 = ft.dest_idx[0].idx[0], ft.dest_idx[1]
            v2, p2 = src.idx
        elif d.role == "LEAF" and isinstance(src, copyrel.Load) and src.obj.role == "DEST" and len(src.idx) == 2 and isinstance(src.idx[0], copyrel.Load):
            direction, dest_name, leaf_name = "scatter", src.obj.name, d.name
            v2, p2 = ft.dest_idx
            p1, v1 = src.idx[0].idx[0], src.idx[1]
        else:
            res.violation(rule, f, fn["qname"], "shape@%d" % ft.node["l"][1], ft.node["l"][1], "the copy `%s` does not relate one per-particle record (under the particle's original index) with one per-leaf value" % facts.ntext(ft.node)[:80])
            continue
        res.instance(rule, "%s @%d (%s)" % (fn["qname"], ft.node["l"][1], direction), facts.loc(ft.node), "%s[IDX[%s]][%s] %s %s[%s][%s]" % (dest_name, p1, v1, "<-" if direction == "gather" else "->", leaf_name, v2, p2))
        if sympy.simplify(p1 - p2) != 0:
            res.violation(rule, f, fn["qname"], "position@%d" % ft.node["l"][1], ft.node["l"][1],
                          "the record under the original index of the particle at leaf position `%s` is paired with the values stored at leaf position `%s`" % (p1, p2))
            continue
        off = sympy.simplify(v1 - v2)
        loopsyms = set(l[0] for l in ft.loops)
        if off.free_symbols & loopsyms:
            res.violation(rule, f, fn["qname"], "value@%d" % ft.node["l"][1], ft.node["l"][1], "value slot `%s` of the record is paired with value row `%s`" % (v1, v2))
            continue
        if strict and off != 0:
            res.violation(rule, f, fn["qname"], "value-offset@%d" % ft.node["l"][1], ft.node["l"][1], "value row `%s` is exported in slot `%s` of the returned record" % (v2, v1))
        prev = slot_offsets.setdefault((dest_name, leaf_name), (off, direction, ft.node))
        if sympy.simplify(prev[0] - off) != 0:
            res.violation(rule.replace("gather-scatter", "scatter-inverse"), f, fn["qname"], "slot-offset@%d" % ft.node["l"][1], ft.node["l"][1],
                          "the values of '%s' are %sed at slot offset %s but were %sed at offset %s (line %d): the scatter is not the inverse of the gather" % (leaf_name, direction, off, prev[1], prev[0], prev[2]["l"][1]))
        dte = dest_info.get(dest_name)
        lte = leaf_info.get(leaf_name)
        if dte is not None and lte is not None and dte[1][1] != lte[1]:
            res.violation(rule + ".elem-type", tbf.rel(facts.path_of(dte[0])), fn["qname"], dest_name, dte[0]["l"][1],
                          "per-particle staging array '%s' stores %s but the rows '%s' it is copied %s hold %s values: the values are converted on the way (explicit casts included) "
                          "and are not preserved when the two types differ" % (dest_name, dte[1][1], leaf_name, "from" if direction == "gather" else "to", lte[1]))
        if not copyrel.position_sweeps(sympy.sympify(p1), ft.loops, N):
            raise AnalysisBroken("%s: cannot show that leaf position `%s` sweeps [0, number of particles of the leaf) exactly once" % (facts.loc(ft.node), p1))
    _lambda_done[key] = True
    return True


def fmt(d):
    return d[0] + ("(%s)" % d[1] if len(d) > 1 else "")
