"""`kstate` engine: what a kernel object *keeps* and *shares* (C05, C04, C03.d).

The task executors give every worker thread its own copy of the kernel, and an executor may call the
operators of one kernel object in any order and any number of times.  Results are independent of the
executor and of earlier calls only if
  S1 (isolation of copies)  no storage that an operator writes is shared between a kernel and its copies:
     every object holding such *scratch* storage is held by value all the way up to the kernel class, and its
     copy constructor allocates the scratch storage anew instead of copying the pointer;
  S2 (no carried state)     inside every operator-reachable function, a scratch buffer is wholly written
     (memcpy / memset over its allocated extent) before anything reads it, and no function hands a
     mutable pointer to a scratch buffer to its caller.
Everything is read from the class facts and method bodies of the template patterns; callees are resolved
through the declared type of the member they are called on (typedefs of the declaring class, base classes).
"""
import re

import tbf
from tbf import walk, kids, strip, AnalysisBroken

OPERATORS = ("P2M", "M2M", "M2L", "L2L", "L2P", "P2P", "P2PTsm", "P2PInner")
WRITE_CALLS = {"memcpy": 0, "memset": 0, "memmove": 0, "copy": 2, "fill": 0, "fill_n": 0, "setzero": 1, "copyall": 0}
SMART = re.compile(r"\b(shared_ptr|FSmartPointer|unique_ptr|weak_ptr)\s*<")


def _strip_targs(t):
    out, depth = [], 0
    for ch in t:
        if ch == "<":
            depth += 1
        elif ch == ">":
            depth -= 1
        elif depth == 0:
            out.append(ch)
    return re.sub(r"\b(const|volatile|typename|class|struct)\b", "", "".join(out)).strip()


class Holder:
    def __init__(self, cls, field, kind, target):
        self.cls, self.field, self.kind, self.target = cls, field, kind, target

    def __repr__(self):
        return "%s::%s -[%s]-> %s" % (self.cls, self.field, self.kind, self.target)


class KState:
    def __init__(self, facts):
        self.facts = facts
        self.classes = {}
        for c in facts.classes:
            self.classes.setdefault(c["name"], []).append(c)

    # ------------------------------------------------------------------ types
    def class_of_type(self, t, ctx_cls):
        """(class name, how it is held) for a field type string; typedefs of the declaring class are followed"""
        t = (t or "").strip()
        kind = "value"
        t = re.sub(r"^(const|volatile)\s+", "", t)
        m = SMART.search(t)
        if m:
            kind = "shared" if m.group(1) in ("shared_ptr", "FSmartPointer", "weak_ptr") else "unique"
            t = t[m.end():]
            t = t[:t.rfind(">")] if ">" in t else t
        t = t.strip()
        if t.endswith("*const") or t.endswith("* const") or t.endswith("*"):
            kind = "pointer" if kind == "value" else kind
            t = re.sub(r"\*\s*(const)?\s*$", "", t).strip()
        if t.endswith("&"):
            kind = "reference"
            t = t[:-1].strip()
        t = re.sub(r"^(const|volatile)\s+", "", t)
        t = re.sub(r"\s+const$", "", t)
        for _ in range(6):
            comps = [c_ for c_ in _strip_targs(t).split("::") if c_ and c_ != "typename"]
            if not comps:
                return None, kind
            last = comps[-1].strip()
            owner = comps[-2].strip() if len(comps) > 1 else ctx_cls
            if len(comps) == 1 and last in self.classes:
                return last, kind
            td = self._typedef(owner, last) or (self._typedef(ctx_cls, last) if len(comps) == 1 else None)
            if td is None:
                if last in self.classes:
                    return last, kind
                return None, kind
            t = td
            if len(comps) > 1:
                ctx_cls = owner
        return None, kind

    def _typedef(self, cls, name):
        for c in self.classes.get(cls, []):
            for td in c.get("typedefs", []):
                if td["name"] == name:
                    return td["t"]
        for c in self.classes.get(cls, []):
            for b in c.get("bases", []):
                r = self._typedef(b.split("<")[0].strip(), name)
                if r:
                    return r
        return None

    def bases(self, cls):
        out = []
        for c in self.classes.get(cls, []):
            for b in c.get("bases", []):
                bn = b.split("<")[0].strip()
                if bn in self.classes and bn not in out:
                    out.append(bn)
                    out += [x for x in self.bases(bn) if x not in out]
        return out

    def fields(self, cls, with_bases=True):
        out = []
        seen = set()
        for cn in [cls] + (self.bases(cls) if with_bases else []):
            for c in self.classes.get(cn, []):
                for f in c.get("fields", []):
                    if (cn, f["name"]) not in seen:
                        seen.add((cn, f["name"]))
                        out.append((cn, f))
        return out

    def methods(self, cls, name=None, with_bases=True):
        out = []
        for cn in [cls] + (self.bases(cls) if with_bases else []):
            for m in self.facts.methods_of(cn):
                if tbf.body(m) is not None and (name is None or m["name"] == name):
                    out.append(m)
        return out

    # ------------------------------------------------------------------ ownership graph
    def holders(self, root):
        """edges of the ownership graph reachable from class `root`"""
        edges, todo, seen = [], [root], set()
        while todo:
            c = todo.pop()
            if c in seen:
                continue
            seen.add(c)
            for cn, f in self.fields(c):
                tgt, kind = self.class_of_type(f.get("t"), cn)
                if tgt is not None and tgt != c:
                    edges.append(Holder(c, f["name"], kind, tgt))
                    todo.append(tgt)
            for b in self.bases(c):
                todo.append(b)
        return edges

    # ------------------------------------------------------------------ member accesses
    @staticmethod
    def field_ref(n, names):
        """name of the member of *this* that expression n denotes (through subscripts / derefs), else None"""
        n = strip(n)
        while n is not None:
            k = n.get("k")
            if k in ("MemberExpr", "CXXDependentScopeMemberExpr") and n.get("name") in names:
                b = kids(n)
                if not b or strip(b[0]).get("k") == "CXXThisExpr":
                    return n["name"]
                return None
            if k == "DeclRefExpr" and n.get("name") in names and n.get("dk") == "Field":
                return n["name"]
            if k == "DependentScopeDeclRefExpr" and n.get("name") in names:
                return n["name"]
            if k in ("ArraySubscriptExpr",):
                n = strip(kids(n)[0])
                continue
            if k == "UnaryOperator" and n.get("op") in ("*", "&"):
                n = strip(kids(n)[0])
                continue
            if k in ("CXXReinterpretCastExpr", "CXXStaticCastExpr", "CStyleCastExpr", "CXXConstCastExpr", "CXXFunctionalCastExpr") and kids(n):
                n = strip(kids(n)[0])
                continue
            if k == "BinaryOperator" and n.get("op") in ("+", "-"):
                n = strip(kids(n)[0])
                continue
            return None
        return None

    def reachable(self, root, entry_names):
        """(class, method record) pairs reachable from the named methods of `root`; calls on a member are resolved through
        the member's declared class, unqualified calls through the class itself and its bases"""
        out, seen = [], set()
        todo = [(root, m) for n in entry_names for m in self.methods(root, n)]
        while todo:
            cls, m = todo.pop()
            key = (cls, m["qname"], m["l"][1] if m.get("l") else 0)
            if key in seen:
                continue
            seen.add(key)
            out.append((cls, m))
            fnames = {f["name"]: (cn, f) for cn, f in self.fields(cls)}
            for c in walk(tbf.body(m)):
                if c.get("k") not in ("CallExpr", "CXXMemberCallExpr"):
                    continue
                nm = tbf.callee_name(c)
                if nm is None:
                    continue
                base = tbf.call_base(c)
                if base is None or strip(base).get("k") == "CXXThisExpr":
                    callee = strip(kids(c)[0])
                    q = (callee.get("qual") or "")
                    qcls = q.rstrip(":").split("::")[-1].split("<")[0] if q else None
                    if qcls and qcls in self.classes and qcls != cls and qcls not in self.bases(cls):
                        for g in self.methods(qcls, nm):
                            todo.append((qcls, g))       # static helper of another class (FBlas::add, FP2PR::...)
                        continue
                    if qcls and self._typedef(cls, qcls):
                        tgt, _k = self.class_of_type(qcls, cls)
                        for g in self.methods(tgt or cls, nm):
                            todo.append((tgt or cls, g))
                        continue
                    for g in self.methods(cls, nm):
                        todo.append((g.get("cls") or cls, g))
                    continue
                fr = self.field_ref(base, fnames)
                if fr is None:
                    bb = strip(base)
                    if bb.get("k") == "CXXOperatorCallExpr" and kids(bb):       # (*ptr).m / ptr->m through operator->
                        fr = self.field_ref(kids(bb)[-1], fnames)
                if fr is not None:
                    cn, f = fnames[fr]
                    tgt, _kind = self.class_of_type(f.get("t"), cn)
                    if tgt is not None:
                        for g in self.methods(tgt, nm):
                            todo.append((g.get("cls") or tgt, g))
        return out

    # ------------------------------------------------------------------ writes to members
    def plan_aliases(self, cls):
        """plan member -> (input buffer member, output buffer member), from `plan = make_plan(dims, sizes, in, out, ...)`"""
        names = {f["name"] for _c, f in self.fields(cls)}
        out = {}
        for m in self.methods(cls):
            for x in walk(tbf.body(m)):
                if x.get("k") == "BinaryOperator" and x.get("op") == "=":
                    l = self.field_ref(kids(x)[0], names)
                    r = strip(kids(x)[1])
                    if l and r.get("k") == "CallExpr" and "plan" in (tbf.callee_name(r) or "").lower():
                        bufs = [self.field_ref(a, names) for a in tbf.call_args(r)]
                        bufs = [b for b in bufs if b]
                        if len(bufs) == 2:
                            out[l] = (bufs[0], bufs[1])
        return out

    def member_events(self, cls, m, depth=0):
        """ordered (line, kind, member, node, detail) events of one method: kind in wcall / wpart / read / exec-in / exec-out / escape.
        A call of another method of the same object contributes that method's events at the place of the call (a private helper
        that stages the input and runs the plan defines the buffers for its caller)."""
        own = self._member_events_local(cls, m)
        if depth >= 3:
            return own
        b = tbf.body(m)
        spliced = []
        for x in walk(b):
            if x.get("k") in ("CallExpr", "CXXMemberCallExpr"):
                base = tbf.call_base(x)
                if base is not None and strip(base).get("k") != "CXXThisExpr":
                    continue
                nm = tbf.callee_name(x)
                cands = [g for g in self.methods(cls, nm) if g is not m and len(g["params"]) == len(tbf.call_args(x))]
                if len(cands) != 1:
                    continue
                for e in self.member_events(cands[0].get("cls") or cls, cands[0], depth + 1):
                    if e[1] == "escape":
                        continue
                    kind = e[1]
                    if kind == "wcall" and any(a.get("k") in ("IfStmt", "ForStmt", "WhileStmt", "DoStmt", "SwitchStmt") for a in tbf.ancestors(e[3])):
                        kind = "wpart"       # a whole-buffer write the helper performs only under a condition defines nothing for the caller
                    spliced.append((x["l"][1], kind, e[2], x, e[4], e[0]))
        if not spliced:
            return own
        order = {"wcall": 0, "wpart": 1, "read": 2, "exec-in": 3, "exec-out": 4, "escape": 5}
        allv = [(e[0], 0.5, 0, e) for e in own] + [(sp[0], 0.0, sp[5], sp[:5]) for sp in spliced]
        # events of the callee happen at the call's line, before what the caller does later on that line, in the callee's own order
        out = []
        for line, pri, sub, e in sorted(allv, key=lambda t: (t[0], t[1], t[2], order.get(t[3][1], 9))):
            out.append(e)
        return out

    def _member_events_local(self, cls, m):
        names = {f["name"]: f for _c, f in self.fields(cls)}
        ptrish = {n for n, f in names.items() if "*" in f.get("t", "") or "[" in f.get("t", "") or "unique_ptr" in f.get("t", "") or "shared_ptr" in f.get("t", "")}
        plans = self.plan_aliases(cls)
        ev = []
        b = tbf.body(m)
        tbf.link_parents(b)
        consumed = set()
        # local pointers that name a buffer member (`T* const p = member;`, `= member.get()`, `= &member[0]`): what is done through them is done
        # to the member
        alias = {}
        for v in walk(b):
            if v.get("k") == "VarDecl" and kids(v) and ("*" in v.get("t", "") or "auto" in v.get("t", "")):
                i0 = strip(kids(v)[0])
                while i0.get("k") in ("CallExpr", "CXXMemberCallExpr") and tbf.callee_name(i0) in ("get", "data") and tbf.call_base(i0) is not None and not tbf.call_args(i0):
                    i0 = strip(tbf.call_base(i0))
                fr0 = KState.field_ref(i0, ptrish)
                if fr0:
                    alias[v["did"]] = fr0
        _plain = KState.field_ref

        def _aliased(n, names_):
            r = _plain(n, names_)
            if r is not None or not alias:
                return r
            n = strip(n)
            while n is not None:
                k_ = n.get("k")
                if k_ == "DeclRefExpr":
                    a_ = alias.get(n.get("did"))
                    return a_ if a_ in names_ else None
                if k_ in ("ArraySubscriptExpr",) or (k_ == "UnaryOperator" and n.get("op") in ("*", "&")) or (k_ == "BinaryOperator" and n.get("op") in ("+", "-")) \
                        or (k_ in ("CXXReinterpretCastExpr", "CXXStaticCastExpr", "CStyleCastExpr", "CXXConstCastExpr", "CXXFunctionalCastExpr") and kids(n)):
                    n = strip(kids(n)[0])
                    continue
                return None
            return None
        self.field_ref = _aliased
        for x in walk(b):
            k = x.get("k")
            if k in ("CallExpr", "CXXMemberCallExpr"):
                nm = tbf.callee_name(x) or ""
                args = tbf.call_args(x)
                low = nm.lower()
                if "execute" in low and args:
                    p = self.field_ref(args[0], names)
                    if p in plans:
                        ev.append((x["l"][1], "exec-in", plans[p][0], x, nm))
                        ev.append((x["l"][1], "exec-out", plans[p][1], x, nm))
                        for y in walk(args[0]):
                            consumed.add(id(y))
                        continue
                if nm in WRITE_CALLS and args:
                    di = WRITE_CALLS[nm] if WRITE_CALLS[nm] < len(args) else 0
                    if nm == "setzero" and len(args) == 2:
                        di = 1
                    dst = self.field_ref(args[di], ptrish)
                    if dst:
                        size = self.facts.ntext(args[-1]) if nm in ("memcpy", "memset", "memmove") else (self.facts.ntext(args[0]) if nm == "setzero" else "")
                        ev.append((x["l"][1], "wcall", dst, x, size))
                        for y in walk(args[di]):
                            consumed.add(id(y))
                    for i, a in enumerate(args):
                        if i == di:
                            continue
                        src = self.field_ref(a, ptrish)
                        if src:
                            ev.append((x["l"][1], "read", src, x, nm))
                            for y in walk(a):
                                consumed.add(id(y))
                    continue
            if k in ("BinaryOperator", "CompoundAssignOperator") and x.get("op", "").endswith("=") and x.get("op") not in ("==", "!=", "<=", ">="):
                l = strip(kids(x)[0])
                if l.get("k") in ("ArraySubscriptExpr", "UnaryOperator"):
                    dst = self.field_ref(l, ptrish)
                    if dst:
                        ev.append((x["l"][1], "wpart", dst, x, self.facts.ntext(l)[:50]))
                        for y in walk(l):
                            if y.get("k") in ("MemberExpr", "CXXDependentScopeMemberExpr") and y.get("name") == dst:
                                consumed.add(id(y))
            if k in ("CallExpr", "CXXMemberCallExpr") and (tbf.callee_name(x) or "") not in WRITE_CALLS and "execute" not in (tbf.callee_name(x) or "").lower():
                # a member handed to a callee through a non-const reference / pointer parameter may be written there
                nm_ = tbf.callee_name(x)
                args_ = tbf.call_args(x)
                cands_ = [g for g in self.facts.functions if g["name"] == nm_ and not g.get("inst") and len(g["params"]) == len(args_)]
                for i_, a_ in enumerate(args_):
                    mname = self.field_ref(a_, names) if strip(a_).get("k") in ("MemberExpr", "CXXDependentScopeMemberExpr") else None
                    if mname is None or not cands_:
                        continue
                    pts = [g["params"][i_]["t"].strip() for g in cands_]
                    if all((t_.endswith("&") and not t_.startswith("const ")) for t_ in pts):
                        ev.append((x["l"][1], "wpart", mname, x, "by reference to %s()" % nm_))
                        for y in walk(a_):
                            consumed.add(id(y))
            if k == "ReturnStmt" and kids(x):
                r = self.field_ref(kids(x)[0], ptrish)
                if r:
                    ev.append((x["l"][1], "escape", r, x, m.get("rtype", "")))
                    for y in walk(x):
                        consumed.add(id(y))
        decl_inits = set()
        for v in walk(b):
            if v.get("k") == "VarDecl" and v.get("did") in alias:
                for y in walk(v):
                    decl_inits.add(id(y))
        for x in walk(b):
            if x.get("k") in ("MemberExpr", "CXXDependentScopeMemberExpr") and x.get("name") in ptrish and id(x) not in consumed and id(x) not in decl_inits:
                bb = kids(x)
                if bb and strip(bb[0]).get("k") != "CXXThisExpr":
                    continue
                # a remaining mention: read of the buffer (argument of another call, subscripted read)
                ev.append((x["l"][1], "read", x["name"], x, "mention"))
            if x.get("k") == "DeclRefExpr" and x.get("did") in alias and id(x) not in consumed:
                ev.append((x["l"][1], "read", alias[x["did"]], x, "mention through the local '%s'" % x.get("name")))
        try:
            del self.field_ref          # back to the class's static lookup
        except AttributeError:
            pass
        ev.sort(key=lambda e: (e[0], {"wcall": 0, "wpart": 1, "read": 2, "exec-in": 3, "exec-out": 4, "escape": 5}[e[1]]))
        return ev
