/* Declaration-only stand-in for <starpu.h>.
 * PARSING AID ONLY: names, types and macro constants the tbfmm StarPU executors
 * mention, so that clang can build their AST (no StarPU in this image).  No
 * behaviour is modelled and nothing here is executed. */
#ifndef TBFVERIF_STUB_STARPU_H
#define TBFVERIF_STUB_STARPU_H
#include <stddef.h>
#include <stdint.h>
#ifdef __cplusplus
extern "C" {
#endif
enum starpu_data_access_mode { STARPU_NONE = 0, STARPU_R = 1, STARPU_W = 2, STARPU_RW = 3, STARPU_SCRATCH = 4, STARPU_REDUX = 8, STARPU_COMMUTE = 16 };
enum starpu_worker_archtype { STARPU_CPU_WORKER = 0, STARPU_CUDA_WORKER = 1 };
enum starpu_perfmodel_type { STARPU_PERFMODEL_INVALID = 0, STARPU_PER_ARCH, STARPU_COMMON, STARPU_HISTORY_BASED };
#define STARPU_CPU (1u<<1)
#define STARPU_CUDA (1u<<3)
#define STARPU_MAIN_RAM 0
#define STARPU_NMAXBUFS 8
#define STARPU_MAXIMPLEMENTATIONS 4
#define STARPU_VALUE (1<<16)
#define STARPU_PRIORITY (3<<16)
#define STARPU_NAME (14<<16)
typedef struct _starpu_data_state* starpu_data_handle_t;
struct starpu_perfmodel { enum starpu_perfmodel_type type; const char* symbol; };
typedef void (*starpu_cpu_func_t)(void**, void*);
typedef void (*starpu_cuda_func_t)(void**, void*);
struct starpu_codelet {
    uint32_t where;
    starpu_cpu_func_t cpu_funcs[STARPU_MAXIMPLEMENTATIONS];
    starpu_cuda_func_t cuda_funcs[STARPU_MAXIMPLEMENTATIONS];
    char cuda_flags[STARPU_MAXIMPLEMENTATIONS];
    int nbuffers;
    enum starpu_data_access_mode modes[STARPU_NMAXBUFS];
    struct starpu_perfmodel* model;
    const char* name;
};
struct starpu_variable_interface { uintptr_t ptr; size_t elemsize; };
#define STARPU_VARIABLE_GET_PTR(interface) (((struct starpu_variable_interface *)(interface))->ptr)
#define STARPU_VARIABLE_GET_ELEMSIZE(interface) (((struct starpu_variable_interface *)(interface))->elemsize)
struct starpu_conf;
int starpu_init(struct starpu_conf*);
void starpu_shutdown(void);
void starpu_pause(void);
void starpu_resume(void);
int starpu_task_wait_for_all(void);
int starpu_insert_task(struct starpu_codelet* cl, ...);
void starpu_codelet_unpack_args(void* cl_arg, ...);
void starpu_codelet_init(struct starpu_codelet* cl);
void starpu_variable_data_register(starpu_data_handle_t* handle, int home_node, uintptr_t ptr, size_t size);
int starpu_data_acquire(starpu_data_handle_t handle, enum starpu_data_access_mode mode);
void starpu_data_release(starpu_data_handle_t handle);
void starpu_data_unregister(starpu_data_handle_t handle);
void starpu_execute_on_each_worker(void (*func)(void*), void* arg, uint32_t where);
unsigned starpu_worker_get_count(void);
unsigned starpu_cpu_worker_get_count(void);
int starpu_worker_get_count_by_type(enum starpu_worker_archtype type);
int starpu_worker_get_id(void);
#ifdef __cplusplus
}
#endif
#endif
