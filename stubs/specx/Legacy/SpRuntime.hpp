// Declaration-only stand-in for Specx's <Legacy/SpRuntime.hpp>.
// PARSING AID ONLY: it names the entities the tbfmm Specx executors mention so
// that clang can build their AST (deps/specx is an empty submodule in this
// image).  No behaviour is modelled and nothing here is executed.
#ifndef TBFVERIF_STUB_SPRUNTIME_HPP
#define TBFVERIF_STUB_SPRUNTIME_HPP
enum class SpSpeculativeModel { SP_NO_SPEC };
struct SpWorkerTeamBuilder { struct Team{}; static Team TeamOfCpuWorkers(); static Team TeamOfCpuWorkers(int); };
struct SpComputeEngine { explicit SpComputeEngine(SpWorkerTeamBuilder::Team); int getNbCpuWorkers() const; void stopIfNotAlreadyStopped(); };
struct SpPriority { explicit SpPriority(int); };
template <class T> struct SpReadT { const T& ref; };
template <class T> struct SpCommutativeWriteT { T& ref; };
template <class T> SpReadT<T> SpRead(const T&);
template <class T> SpCommutativeWriteT<T> SpCommutativeWrite(T&);
template <SpSpeculativeModel M> struct SpTaskGraph {
    void computeOn(SpComputeEngine&);
    template <class... Args> void task(Args&&...);
    void waitAllTasks();
};
struct SpUtils { static long int GetThreadId(); static int DefaultNumThreads(); };
#endif
