#!/bin/bash
# tools/tryseed.sh <seed dir or patch file> [checks...]   - applies the patch to a scratch copy of /repo's current src and runs the checks on it
P=$1; shift
[ -d "$P" ] && P=$P/patch.diff
D=$(mktemp -d /tmp/tryseed.XXXXXX)
cp -r /repo/src $D/src
PP=$(readlink -f "$P"); (cd $D && patch -p1 -s < "$PP") || echo "PATCH DID NOT APPLY CLEANLY"
for c in "$@"; do
  (cd $(dirname $(dirname $(readlink -f $0))) && TBF_REPO=$D TBF_OUT=$D/out ./check $c --tier ${TIER:-quick} 2>&1 | grep -E "violated rule|ANALYSIS-BROKEN|^OK|VIOLATION" | cut -c1-600)
done
rm -rf $D
