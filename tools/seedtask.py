#!/usr/bin/env python3
"""Prepares the scratch worktree and the task text for an independent seeding sub-agent.

  tools/seedtask.py <Cxx> <tag> [extra hint ...]

Creates /tmp/wt/<tag> (git worktree of /repo HEAD) with /tmp/wt/<tag>/SEED/TASK.md holding the
property record and the instructions.  Nothing from /verif is copied: the agent sees the property
text and the repository only."""
import json, os, subprocess, sys
VERIF = os.path.dirname(os.path.dirname(os.path.abspath(__file__)))
pid, tag = sys.argv[1], sys.argv[2]
hint = " ".join(sys.argv[3:])
prop = [json.loads(l) for l in open(os.path.join(VERIF, "properties.jsonl")) if json.loads(l)["id"] == pid][0]
wt = "/tmp/wt/" + tag
os.makedirs("/tmp/wt", exist_ok=True)
subprocess.run(["git", "-C", "/repo", "worktree", "add", "--detach", wt, "HEAD"], check=True, stdout=subprocess.PIPE, stderr=subprocess.PIPE)
os.makedirs(wt + "/SEED", exist_ok=True)
text = """# Task: write one realistic change to berenger-eu/tbfmm that breaks a stated property

You work ONLY inside the git worktree `%(wt)s` (a checkout of the tbfmm repository; header-only C++17
FMM library, sources under `src/`, unit tests under `unit-tests/`, built with cmake + ninja, g++ 12,
OpenMP and FFTW available; no network).  Do not touch `/repo`, do not read or write `/verif`, do
not use `git stash` (the stash is shared between worktrees; use `git diff > file` and
`git apply -R file` instead), do not commit.

## The property (id %(id)s) - %(title)s

%(statement)s

Quantifier: %(quantifier)s

Why the existing tests cannot settle it: %(why)s

Where it lives (anchors):
```json
%(anchors)s
```

## What to produce

A change to the library sources under `src/` (NOT to the tests) that
  1. still compiles and keeps the whole existing unit-test suite green
     (`cmake -G Ninja -S %(wt)s -B %(wt)s/_build -DCMAKE_BUILD_TYPE=RelWithDebInfo -DBUILD_TESTS=ON && cmake --build %(wt)s/_build -j 6 && ctest --test-dir %(wt)s/_build -j6 --timeout 900`
      - 26 tests; run it WITH your change and report the tail of the output);
  2. makes the library violate the property above for some inputs / schedules / sequences of calls;
  3. looks like something a contributor could plausibly submit (an optimisation, a fast path, a
     refactoring, a clean-up, a "simplification", a generalisation) - not sabotage, no dead code, no
     comments that give it away;
  4. needs something SPECIFIC to manifest - a particular interleaving or thread count, a multi-step
     sequence of operations, an unusual but valid input or configuration (tree height, dimension,
     block size, particle layout, data type ...), or two cooperating sites that each look fine alone
     - not something ordinary use would expose at once.  Subtle is better than blunt.
%(hint)s
And a demonstration: a small self-contained program `%(wt)s/SEED/demo.cpp` (taking the repository
root as argv[1] is not needed; it is compiled with
`g++ -std=c++17 -fopenmp -O1 -DNDEBUG -DTBF_USE_OPENMP -DTBF_USE_FFTW -I<root>/src demo.cpp -o demo -lfftw3 -lfftw3f`
and run as `./demo <root>`), or, if you need other flags / several steps / environment variables,
an executable `%(wt)s/SEED/run.sh` that takes the repository root as `$1`, builds and runs the
demonstration and exits 0 when the property holds and non-zero when it is violated.  The
demonstration must exit 0 on the unchanged sources and non-zero with your change, deterministically
(if it depends on a schedule, force the schedule, e.g. with thread counts, taskyield, sleeps in a
kernel, or repeat until it shows and bound the run time to a few minutes).  It must check the
property with an independent oracle (brute force / linear scan / direct sum), not compare against
constants you copied from a run.

Files to leave in `%(wt)s/SEED/`:
  * `patch.diff`  - output of `git -C %(wt)s diff -- src` (sources only)
  * `demo.cpp` or `run.sh` (+ any helper files it needs)
  * `meta.json`   - {"property": "%(id)s", "summary": what the change does and why it breaks the property,
                     "needs": what exactly is required for it to manifest, "files_changed": [...],
                     "how_verified": [the commands you ran and what they printed: suite with the change,
                     demo with the change, demo without the change]}

Verify all three claims yourself before finishing (suite green with the change; demo fails with the
change; demo passes on the unchanged sources - e.g. `git diff -- src > SEED/patch.diff; git apply -R SEED/patch.diff; run; git apply SEED/patch.diff`).
When you are done, leave the change APPLIED in the worktree, delete `%(wt)s/_build` (disk is
limited) and reply with a short summary (what, where, what it needs, what you ran).
""" % dict(wt=wt, id=prop["id"], title=prop["title"], statement=prop["statement"],
           quantifier=prop.get("quantifier", ""), why=prop.get("why_tests_cant", ""),
           anchors=json.dumps(prop["anchors"], indent=1), hint=("\nAdditional direction: " + hint + "\n") if hint else "")
open(wt + "/SEED/TASK.md", "w").write(text)
print(wt + "/SEED/TASK.md")
