#!/usr/bin/env python3-vt
import json, jsonschema, glob, sys
ok = True
jsonschema.validate(json.load(open('/verif/MANIFEST.json')), json.load(open('/root/.vp/MANIFEST.schema.json')))
es = json.load(open('/root/.vp/EVIDENCE.schema.json'))
for f in sorted(glob.glob('/verif/evidence/*.json')):
    try:
        jsonschema.validate(json.load(open(f)), es)
    except Exception as e:
        ok = False
        print("INVALID", f, str(e)[:300])
print("manifest+evidence valid" if ok else "FAILED")
sys.exit(0 if ok else 1)
