#!/usr/bin/env python3-vt
"""debug: print the exported tree of one function:  tools/dumpfn.py <config> <qname> [maxdepth]"""
import sys, os
sys.path.insert(0, os.path.join(os.path.dirname(os.path.dirname(os.path.abspath(__file__))), "rules"))
import tbf
f = tbf.scan(sys.argv[1])
md = int(sys.argv[3]) if len(sys.argv) > 3 else 99
def pr(n, d):
    if n is None:
        print("  " * d + "null"); return
    extra = {k: v for k, v in n.items() if k not in ("k", "c", "l", "b", "e", "clauses", "params", "captures", "dtype") and not k.startswith("_")}
    print("  " * d + n.get("k", "?") + " " + str(extra)[:200] + ("  @%d" % n["l"][1] if "l" in n else ""))
    if d >= md: return
    for cl in n.get("clauses", []): pr(cl, d + 1)
    for p in n.get("params", []): pr(p, d + 1)
    for c in n.get("c", []): pr(c, d + 1)
for fn in f.fns(sys.argv[2]):
    print("==", fn["qname"], [(p["name"], p["t"]) for p in fn["params"]])
    pr(tbf.body(fn), 0)
