// tbfscan — fact exporter for the tbfmm static checks (clang 14 libTooling).
//
// Usage: tbfscan [--root <prefix>]... [--inst] [-o out.json] file.cpp -- <compiler flags>
//
// Emits one JSON document with, for every function / method / function-template
// pattern whose definition is spelled under one of the --root prefixes:
//   * signature facts (qualified name, class, params, const, static, template kind)
//   * a lean statement/expression tree (kind, type, source range offsets,
//     referenced decl ids, opcodes, literals, cast kinds, lambda captures,
//     OpenMP directives with clause kinds / variable lists / depend kinds)
// plus class facts (fields, bases, methods) and enum facts.
// With --inst implicit template instantiations are exported too (marked "inst").
//
// Nothing here decides a property; rules live in /verif/rules/*.py.

#include "clang/AST/ASTConsumer.h"
#include "clang/AST/ASTContext.h"
#include "clang/AST/RecursiveASTVisitor.h"
#include "clang/AST/StmtOpenMP.h"
#include "clang/AST/OpenMPClause.h"
#include "clang/AST/ExprCXX.h"
#include "clang/AST/ExprOpenMP.h"
#include "clang/Basic/OpenMPKinds.h"
#include "clang/Frontend/CompilerInstance.h"
#include "clang/Frontend/FrontendAction.h"
#include "clang/Lex/Lexer.h"
#include "clang/Tooling/CommonOptionsParser.h"
#include "clang/Tooling/Tooling.h"
#include "llvm/Support/CommandLine.h"
#include "llvm/Support/JSON.h"
#include "llvm/Support/raw_ostream.h"

#include <map>
#include <set>
#include <string>
#include <vector>

using namespace clang;

static llvm::cl::OptionCategory Cat("tbfscan options");
static llvm::cl::list<std::string> Roots("root", llvm::cl::desc("only export definitions spelled under this path prefix"), llvm::cl::cat(Cat));
static llvm::cl::opt<bool> WithInst("inst", llvm::cl::desc("also export implicit template instantiations"), llvm::cl::cat(Cat));
static llvm::cl::opt<std::string> OutFile("o", llvm::cl::desc("output file"), llvm::cl::init("-"), llvm::cl::cat(Cat));

namespace {

struct Ctx {
    ASTContext *AC = nullptr;
    SourceManager *SM = nullptr;
    std::map<std::string, int> fileIds;
    std::vector<std::string> files;
    std::map<const void *, int> declIds;
    PrintingPolicy *PP = nullptr;

    int fileId(const std::string &name) {
        auto it = fileIds.find(name);
        if (it != fileIds.end()) return it->second;
        int id = (int)files.size();
        files.push_back(name);
        fileIds[name] = id;
        return id;
    }
    int declId(const Decl *D) {
        if (!D) return -1;
        const void *key = D->getCanonicalDecl();
        // parameters / variables: canonical decl is fine too
        auto it = declIds.find(key);
        if (it != declIds.end()) return it->second;
        int id = (int)declIds.size() + 1;
        declIds[key] = id;
        return id;
    }
    std::string typeStr(QualType T) {
        if (T.isNull()) return "";
        return T.getAsString(*PP);
    }
    bool underRoot(SourceLocation L) {
        if (L.isInvalid()) return false;
        SourceLocation E = SM->getExpansionLoc(L);
        auto name = SM->getFilename(E);
        if (name.empty()) return false;
        if (Roots.empty()) return true;
        for (auto &r : Roots)
            if (name.startswith(r)) return true;
        return false;
    }
};

class Dumper {
    Ctx &C;
    llvm::json::OStream &J;

public:
    Dumper(Ctx &c, llvm::json::OStream &j) : C(c), J(j) {}

    void loc(SourceLocation L) {
        SourceLocation E = C.SM->getExpansionLoc(L);
        if (E.isInvalid()) return;
        PresumedLoc P = C.SM->getPresumedLoc(E);
        if (P.isInvalid()) return;
        J.attributeArray("l", [&] {
            J.value(C.fileId(P.getFilename()));
            J.value((int64_t)P.getLine());
            J.value((int64_t)P.getColumn());
        });
    }
    void range(SourceRange R) {
        if (R.isInvalid()) return;
        SourceLocation B = C.SM->getExpansionLoc(R.getBegin());
        SourceLocation E = C.SM->getExpansionRange(R.getEnd()).getEnd();
        if (B.isInvalid() || E.isInvalid()) return;
        SourceLocation E2 = Lexer::getLocForEndOfToken(E, 0, *C.SM, C.AC->getLangOpts());
        if (E2.isInvalid()) E2 = E;
        if (C.SM->getFileID(B) != C.SM->getFileID(E2)) return;
        J.attribute("b", (int64_t)C.SM->getFileOffset(B));
        J.attribute("e", (int64_t)C.SM->getFileOffset(E2));
    }

    void declRef(const ValueDecl *D) {
        if (!D) return;
        J.attribute("name", D->getNameAsString());
        J.attribute("did", C.declId(D));
        J.attribute("dk", D->getDeclKindName());
        J.attribute("dtype", C.typeStr(D->getType()));
        if (auto *V = dyn_cast<VarDecl>(D)) {
            J.attribute("local", V->hasLocalStorage());
            if (V->isStaticDataMember()) J.attribute("staticmember", true);
        }
        if (auto *F = dyn_cast<FunctionDecl>(D)) J.attribute("qname", F->getQualifiedNameAsString());
        if (isa<FieldDecl>(D) || isa<CXXMethodDecl>(D)) {
            if (auto *R = dyn_cast<CXXRecordDecl>(D->getDeclContext())) J.attribute("cls", R->getNameAsString());
        }
        if (auto *EC = dyn_cast<EnumConstantDecl>(D)) J.attribute("val", EC->getInitVal().getExtValue());
    }

    void varDecl(const VarDecl *V) {
        J.object([&] {
            J.attribute("k", isa<ParmVarDecl>(V) ? "ParmVarDecl" : "VarDecl");
            loc(V->getLocation());
            range(V->getSourceRange());
            J.attribute("name", V->getNameAsString());
            J.attribute("did", C.declId(V));
            J.attribute("t", C.typeStr(V->getType()));
            J.attribute("local", V->hasLocalStorage());
            if (V->isStaticLocal()) J.attribute("staticlocal", true);
            if (V->getTLSKind() != VarDecl::TLS_None) J.attribute("tls", true);
            if (V->isConstexpr()) J.attribute("constexpr", true);
            if (V->hasInit()) {
                J.attribute("initstyle", V->getInitStyle() == VarDecl::CInit ? "c" : V->getInitStyle() == VarDecl::CallInit ? "call" : "list");
                J.attributeArray("c", [&] { stmt(V->getInit()); });
            }
        });
    }

    void ompClause(const OMPClause *Cl) {
        J.object([&] {
            J.attribute("k", "OMPClause");
            J.attribute("clause", llvm::omp::getOpenMPClauseName(Cl->getClauseKind()));
            loc(Cl->getBeginLoc());
            range(SourceRange(Cl->getBeginLoc(), Cl->getEndLoc()));
            if (Cl->isImplicit()) J.attribute("implicit", true);
            if (auto *D = dyn_cast<OMPDependClause>(Cl)) {
                J.attribute("depkind", getOpenMPSimpleClauseTypeName(llvm::omp::OMPC_depend, D->getDependencyKind()));
            }
            if (auto *D = dyn_cast<OMPDefaultClause>(Cl)) {
                J.attribute("defkind", (int)D->getDefaultKind());
                J.attribute("defname", D->getDefaultKind() == llvm::omp::OMP_DEFAULT_shared ? "shared" : D->getDefaultKind() == llvm::omp::OMP_DEFAULT_none ? "none" : "other");
            }
            J.attributeArray("c", [&] {
                if (auto *F = dyn_cast<OMPFirstprivateClause>(Cl)) { for (auto *E : F->varlists()) stmt(E); }
                else if (auto *F = dyn_cast<OMPPrivateClause>(Cl)) { for (auto *E : F->varlists()) stmt(E); }
                else if (auto *F = dyn_cast<OMPSharedClause>(Cl)) { for (auto *E : F->varlists()) stmt(E); }
                else if (auto *F = dyn_cast<OMPDependClause>(Cl)) { for (auto *E : F->varlists()) stmt(E); }
                else if (auto *F = dyn_cast<OMPPriorityClause>(Cl)) { stmt(F->getPriority()); }
                else if (auto *F = dyn_cast<OMPIfClause>(Cl)) { stmt(F->getCondition()); }
                else if (auto *F = dyn_cast<OMPFinalClause>(Cl)) { stmt(F->getCondition()); }
                else if (auto *F = dyn_cast<OMPNumThreadsClause>(Cl)) { stmt(F->getNumThreads()); }
                else if (auto *F = dyn_cast<OMPLastprivateClause>(Cl)) { for (auto *E : F->varlists()) stmt(E); }
                else if (auto *F = dyn_cast<OMPReductionClause>(Cl)) { for (auto *E : F->varlists()) stmt(E); }
            });
        });
    }

    void stmt(const Stmt *S) {
        if (!S) { J.value(nullptr); return; }
        // transparent wrappers
        if (auto *EWC = dyn_cast<ExprWithCleanups>(S)) { stmt(EWC->getSubExpr()); return; }
        if (auto *CE = dyn_cast<ConstantExpr>(S)) { stmt(CE->getSubExpr()); return; }
        if (auto *MTE = dyn_cast<MaterializeTemporaryExpr>(S)) { stmt(MTE->getSubExpr()); return; }
        if (auto *BTE = dyn_cast<CXXBindTemporaryExpr>(S)) { stmt(BTE->getSubExpr()); return; }

        J.object([&] {
            J.attribute("k", S->getStmtClassName());
            loc(S->getBeginLoc());
            range(S->getSourceRange());
            if (auto *E = dyn_cast<Expr>(S)) {
                J.attribute("t", C.typeStr(E->getType()));
                if (E->isLValue()) J.attribute("lv", true);
                if (E->isTypeDependent()) J.attribute("dep", true);
            }
            bool customChildren = false;

            if (auto *DRE = dyn_cast<DeclRefExpr>(S)) {
                declRef(DRE->getDecl());
                if (DRE->refersToEnclosingVariableOrCapture()) J.attribute("captured", true);
            } else if (auto *ME = dyn_cast<MemberExpr>(S)) {
                declRef(ME->getMemberDecl());
                J.attribute("arrow", ME->isArrow());
                if (ME->isImplicitAccess()) J.attribute("implicitthis", true);
            } else if (auto *DM = dyn_cast<CXXDependentScopeMemberExpr>(S)) {
                J.attribute("name", DM->getMember().getAsString());
                J.attribute("arrow", DM->isArrow());
                if (DM->isImplicitAccess()) J.attribute("implicitthis", true);
                customChildren = true;
                J.attributeArray("c", [&] { if (!DM->isImplicitAccess()) stmt(DM->getBase()); });
            } else if (auto *UM = dyn_cast<UnresolvedMemberExpr>(S)) {
                J.attribute("name", UM->getMemberName().getAsString());
                J.attribute("arrow", UM->isArrow());
                if (UM->isImplicitAccess()) J.attribute("implicitthis", true);
                // record naming class of first candidate
                for (auto *D : UM->decls()) {
                    if (auto *R = dyn_cast<CXXRecordDecl>(D->getDeclContext())) { J.attribute("cls", R->getNameAsString()); break; }
                }
                customChildren = true;
                J.attributeArray("c", [&] { if (!UM->isImplicitAccess()) stmt(UM->getBase()); });
            } else if (auto *UL = dyn_cast<UnresolvedLookupExpr>(S)) {
                J.attribute("name", UL->getName().getAsString());
                std::string q;
                if (auto *NNS = UL->getQualifier()) { llvm::raw_string_ostream os(q); NNS->print(os, *C.PP); }
                if (!q.empty()) J.attribute("qual", q);
            } else if (auto *DS = dyn_cast<DependentScopeDeclRefExpr>(S)) {
                J.attribute("name", DS->getDeclName().getAsString());
                std::string q;
                if (auto *NNS = DS->getQualifier()) { llvm::raw_string_ostream os(q); NNS->print(os, *C.PP); }
                if (!q.empty()) J.attribute("qual", q);
            } else if (auto *BO = dyn_cast<BinaryOperator>(S)) {
                J.attribute("op", BO->getOpcodeStr());
            } else if (auto *UO = dyn_cast<UnaryOperator>(S)) {
                J.attribute("op", UnaryOperator::getOpcodeStr(UO->getOpcode()));
                J.attribute("postfix", UO->isPostfix());
            } else if (auto *IL = dyn_cast<IntegerLiteral>(S)) {
                J.attribute("val", (int64_t)IL->getValue().getLimitedValue());
            } else if (auto *FL = dyn_cast<FloatingLiteral>(S)) {
                J.attribute("val", FL->getValueAsApproximateDouble());
            } else if (auto *BL = dyn_cast<CXXBoolLiteralExpr>(S)) {
                J.attribute("val", BL->getValue());
            } else if (auto *SL = dyn_cast<StringLiteral>(S)) {
                if (SL->isAscii()) J.attribute("val", SL->getString());
            } else if (auto *CE = dyn_cast<CastExpr>(S)) {
                J.attribute("cast", CE->getCastKindName());
                if (auto *EC = dyn_cast<ExplicitCastExpr>(S)) J.attribute("tw", C.typeStr(EC->getTypeAsWritten()));
            } else if (auto *TH = dyn_cast<CXXThisExpr>(S)) {
                if (TH->isImplicit()) J.attribute("implicit", true);
            } else if (auto *UC = dyn_cast<CXXUnresolvedConstructExpr>(S)) {
                J.attribute("tw", C.typeStr(UC->getTypeAsWritten()));
            } else if (auto *CC = dyn_cast<CXXConstructExpr>(S)) {
                if (CC->getConstructor()) J.attribute("ctor", CC->getConstructor()->getQualifiedNameAsString());
            } else if (auto *NE = dyn_cast<CXXNewExpr>(S)) {
                J.attribute("array", NE->isArray());
                J.attribute("alloctype", C.typeStr(NE->getAllocatedType()));
            } else if (auto *DE = dyn_cast<CXXDeleteExpr>(S)) {
                J.attribute("array", DE->isArrayForm());
            } else if (auto *SE = dyn_cast<UnaryExprOrTypeTraitExpr>(S)) {
                J.attribute("trait", SE->getKind() == UETT_SizeOf ? "sizeof" : SE->getKind() == UETT_AlignOf ? "alignof" : "other");
                if (SE->isArgumentType()) J.attribute("argtype", C.typeStr(SE->getArgumentType()));
            }
            if (auto *Call = dyn_cast<CallExpr>(S)) {
                if (auto *FD = Call->getDirectCallee()) {
                    J.attribute("callee", FD->getQualifiedNameAsString());
                    J.attribute("calleeid", C.declId(FD));
                }
                if (auto *OC = dyn_cast<CXXOperatorCallExpr>(S)) J.attribute("op", getOperatorSpelling(OC->getOperator()));
            }

            if (auto *DS = dyn_cast<DeclStmt>(S)) {
                customChildren = true;
                J.attributeArray("c", [&] {
                    for (auto *D : DS->decls()) {
                        if (auto *V = dyn_cast<VarDecl>(D)) varDecl(V);
                        else if (auto *DD = dyn_cast<DecompositionDecl>(D)) varDecl(DD);
                        else J.object([&] { J.attribute("k", std::string(D->getDeclKindName()) + "Decl"); if (auto *ND = dyn_cast<NamedDecl>(D)) J.attribute("name", ND->getNameAsString()); });
                    }
                });
            } else if (auto *LE = dyn_cast<LambdaExpr>(S)) {
                customChildren = true;
                J.attribute("capdefault", LE->getCaptureDefault() == LCD_ByRef ? "&" : LE->getCaptureDefault() == LCD_ByCopy ? "=" : "");
                J.attributeArray("captures", [&] {
                    for (auto &Cap : LE->captures()) {
                        J.object([&] {
                            J.attribute("implicit", Cap.isImplicit());
                            if (Cap.capturesThis()) J.attribute("this", true);
                            if (Cap.capturesVariable()) {
                                J.attribute("name", Cap.getCapturedVar()->getNameAsString());
                                J.attribute("did", C.declId(Cap.getCapturedVar()));
                                J.attribute("t", C.typeStr(Cap.getCapturedVar()->getType()));
                                if (Cap.getCapturedVar()->isInitCapture()) {
                                    J.attribute("initcapture", true);
                                    J.attributeArray("c", [&] { varDecl(Cap.getCapturedVar()); });
                                }
                            }
                            J.attribute("byref", Cap.getCaptureKind() == LCK_ByRef);
                        });
                    }
                });
                J.attributeArray("params", [&] {
                    if (auto *CO = LE->getCallOperator())
                        for (auto *P : CO->parameters()) varDecl(P);
                });
                J.attributeArray("c", [&] { stmt(LE->getBody()); });
            } else if (auto *OD = dyn_cast<OMPExecutableDirective>(S)) {
                customChildren = true;
                J.attribute("directive", llvm::omp::getOpenMPDirectiveName(OD->getDirectiveKind()));
                J.attributeArray("clauses", [&] { for (auto *Cl : OD->clauses()) ompClause(Cl); });
                J.attributeArray("c", [&] {
                    if (OD->hasAssociatedStmt()) {
                        const Stmt *A = OD->getAssociatedStmt();
                        while (auto *CS = dyn_cast_or_null<CapturedStmt>(A)) A = CS->getCapturedStmt();
                        stmt(A);
                    }
                });
            } else if (auto *FS = dyn_cast<ForStmt>(S)) {
                customChildren = true;
                J.attributeArray("c", [&] { stmt(FS->getInit()); stmt(FS->getCond()); stmt(FS->getInc()); stmt(FS->getBody()); });
            } else if (auto *RF = dyn_cast<CXXForRangeStmt>(S)) {
                customChildren = true;
                J.attributeArray("c", [&] {
                    if (RF->getLoopVariable()) varDecl(RF->getLoopVariable()); else J.value(nullptr);
                    stmt(RF->getRangeInit());
                    stmt(RF->getBody());
                });
            } else if (auto *IS = dyn_cast<IfStmt>(S)) {
                customChildren = true;
                if (IS->isConstexpr()) J.attribute("constexpr", true);
                J.attributeArray("c", [&] { stmt(IS->getCond()); stmt(IS->getThen()); stmt(IS->getElse()); });
                // if(init; cond) / if(T v = e): kept apart so that "c" stays (cond, then, else)
                if (IS->getInit() || IS->getConditionVariableDeclStmt()) {
                    J.attributeArray("pre", [&] {
                        if (IS->getInit()) stmt(IS->getInit());
                        if (IS->getConditionVariableDeclStmt()) stmt(IS->getConditionVariableDeclStmt());
                    });
                }
            } else if (auto *WS = dyn_cast<WhileStmt>(S)) {
                customChildren = true;
                J.attributeArray("c", [&] { stmt(WS->getCond()); stmt(WS->getBody()); });
            } else if (auto *DoS = dyn_cast<DoStmt>(S)) {
                customChildren = true;
                J.attributeArray("c", [&] { stmt(DoS->getBody()); stmt(DoS->getCond()); });
            }
            if (!customChildren) {
                J.attributeArray("c", [&] {
                    for (const Stmt *Ch : S->children()) stmt(Ch);
                });
            }
        });
    }

    void function(const FunctionDecl *FD, bool isInst) {
        J.object([&] {
            J.attribute("id", C.declId(FD));
            J.attribute("name", FD->getNameAsString());
            J.attribute("qname", FD->getQualifiedNameAsString());
            J.attribute("kind", static_cast<const Decl*>(FD)->getDeclKindName());
            loc(FD->getLocation());
            range(FD->getSourceRange());
            if (isInst) {
                J.attribute("inst", true);
                std::string s; llvm::raw_string_ostream os(s);
                FD->getNameForDiagnostic(os, *C.PP, true);
                J.attribute("instname", os.str());
            }
            if (FD->getDescribedFunctionTemplate()) J.attribute("template", true);
            if (auto *MD = dyn_cast<CXXMethodDecl>(FD)) {
                J.attribute("cls", MD->getParent()->getNameAsString());
                J.attribute("clsq", MD->getParent()->getQualifiedNameAsString());
                J.attribute("const", MD->isConst());
                J.attribute("static", MD->isStatic());
                if (MD->getParent()->getDescribedClassTemplate() || isa<ClassTemplatePartialSpecializationDecl>(MD->getParent())) J.attribute("clstemplate", true);
                if (isInst) {
                    std::string s; llvm::raw_string_ostream os(s);
                    MD->getParent()->getNameForDiagnostic(os, *C.PP, true);
                    J.attribute("clsinst", os.str());
                }
            }
            J.attribute("ret", C.typeStr(FD->getReturnType()));
            J.attributeArray("params", [&] { for (auto *P : FD->parameters()) varDecl(P); });
            if (auto *CD = dyn_cast<CXXConstructorDecl>(FD)) {
                J.attributeArray("inits", [&] {
                    for (auto *I : CD->inits()) {
                        J.object([&] {
                            if (I->isAnyMemberInitializer() && I->getAnyMember()) J.attribute("member", I->getAnyMember()->getNameAsString());
                            else if (I->isBaseInitializer()) J.attribute("base", C.typeStr(QualType(I->getBaseClass(), 0)));
                            if (I->isWritten()) J.attribute("written", true);
                            J.attributeArray("c", [&] { stmt(I->getInit()); });
                        });
                    }
                });
            }
            J.attributeArray("body", [&] { stmt(FD->getBody()); });
        });
    }
};

class Visitor : public RecursiveASTVisitor<Visitor> {
public:
    Ctx &C;
    std::vector<std::pair<const FunctionDecl *, bool>> funcs;
    std::vector<const CXXRecordDecl *> classes;
    std::vector<const EnumDecl *> enums;
    std::vector<const VarDecl *> globals;
    std::set<const void *> seen;
    std::set<const void *> seenVars;

    explicit Visitor(Ctx &c) : C(c) {}
    bool shouldVisitTemplateInstantiations() const { return WithInst; }
    bool shouldVisitImplicitCode() const { return false; }

    bool VisitFunctionDecl(FunctionDecl *FD) {
        if (!FD->doesThisDeclarationHaveABody()) return true;
        if (!C.underRoot(FD->getLocation())) return true;
        if (auto *MD = dyn_cast<CXXMethodDecl>(FD))
            if (MD->getParent()->isLambda()) return true;
        if (!seen.insert(FD).second) return true;
        bool isInst = FD->isTemplateInstantiation();
        if (auto *MD = dyn_cast<CXXMethodDecl>(FD))
            if (isa<ClassTemplateSpecializationDecl>(MD->getParent()) && !isa<ClassTemplatePartialSpecializationDecl>(MD->getParent())) {
                auto *Sp = cast<ClassTemplateSpecializationDecl>(MD->getParent());
                if (Sp->getSpecializationKind() != TSK_ExplicitSpecialization) isInst = true;
            }
        if (isInst && !WithInst) return true;
        funcs.emplace_back(FD, isInst);
        return true;
    }
    bool VisitCXXRecordDecl(CXXRecordDecl *RD) {
        if (!RD->isThisDeclarationADefinition()) return true;
        if (RD->isLambda()) return true;
        if (!C.underRoot(RD->getLocation())) return true;
        if (isa<ClassTemplateSpecializationDecl>(RD) && !isa<ClassTemplatePartialSpecializationDecl>(RD)) {
            auto *Sp = cast<ClassTemplateSpecializationDecl>(RD);
            if (Sp->getSpecializationKind() != TSK_ExplicitSpecialization && !WithInst) return true;
        }
        if (!seen.insert(RD).second) return true;
        classes.push_back(RD);
        return true;
    }
    bool VisitVarDecl(VarDecl *VD) {
        if (!VD->isFileVarDecl() || VD->isStaticDataMember() || isa<VarTemplateSpecializationDecl>(VD)) return true;
        if (!VD->isThisDeclarationADefinition()) return true;
        if (!C.underRoot(VD->getLocation())) return true;
        if (!seenVars.insert(VD).second) return true;
        globals.push_back(VD);
        return true;
    }
    bool VisitEnumDecl(EnumDecl *ED) {
        if (!ED->isThisDeclarationADefinition()) return true;
        if (!C.underRoot(ED->getLocation())) return true;
        if (!seen.insert(ED).second) return true;
        enums.push_back(ED);
        return true;
    }
};

class Consumer : public ASTConsumer {
public:
    void HandleTranslationUnit(ASTContext &AC) override {
        Ctx C;
        C.AC = &AC;
        C.SM = &AC.getSourceManager();
        PrintingPolicy PP(AC.getLangOpts());
        PP.SuppressTagKeyword = true;
        PP.Bool = true;
        C.PP = &PP;

        Visitor V(C);
        V.TraverseDecl(AC.getTranslationUnitDecl());

        std::error_code EC;
        std::unique_ptr<llvm::raw_fd_ostream> OS;
        llvm::raw_ostream *Out = &llvm::outs();
        if (OutFile != "-") {
            OS = std::make_unique<llvm::raw_fd_ostream>(OutFile, EC);
            if (EC) { llvm::errs() << "tbfscan: cannot open " << OutFile << "\n"; exit(3); }
            Out = OS.get();
        }
        llvm::json::OStream J(*Out);
        Dumper D(C, J);
        J.object([&] {
            J.attribute("errors", (int64_t)AC.getDiagnostics().getClient()->getNumErrors());
            J.attributeArray("functions", [&] {
                for (auto &F : V.funcs) D.function(F.first, F.second);
            });
            J.attributeArray("classes", [&] {
                for (auto *RD : V.classes) {
                    J.object([&] {
                        J.attribute("name", RD->getNameAsString());
                        J.attribute("qname", RD->getQualifiedNameAsString());
                        D.loc(RD->getLocation());
                        D.range(RD->getSourceRange());
                        if (RD->getDescribedClassTemplate()) J.attribute("template", true);
                        if (isa<ClassTemplateSpecializationDecl>(RD)) {
                            std::string s; llvm::raw_string_ostream os(s);
                            RD->getNameForDiagnostic(os, *C.PP, true);
                            J.attribute("specname", os.str());
                        }
                        if (auto *CT = RD->getDescribedClassTemplate()) {
                            J.attributeArray("tparams", [&] {
                                for (auto *P : *CT->getTemplateParameters()) {
                                    J.object([&] {
                                        J.attribute("name", P->getNameAsString());
                                        J.attribute("kind", P->getDeclKindName());
                                        if (auto *TT = dyn_cast<TemplateTypeParmDecl>(P)) {
                                            if (TT->hasDefaultArgument()) J.attribute("default", C.typeStr(TT->getDefaultArgument()));
                                        }
                                    });
                                }
                            });
                        }
                        J.attributeArray("bases", [&] { for (auto &B : RD->bases()) J.value(C.typeStr(B.getType())); });
                        J.attributeArray("fields", [&] {
                            for (auto *F : RD->fields()) {
                                J.object([&] {
                                    J.attribute("name", F->getNameAsString());
                                    J.attribute("did", C.declId(F));
                                    J.attribute("t", C.typeStr(F->getType()));
                                    if (F->isMutable()) J.attribute("mutable", true);
                                    D.loc(F->getLocation());
                                    if (F->hasInClassInitializer() && F->getInClassInitializer())
                                        J.attributeArray("c", [&] { D.stmt(F->getInClassInitializer()); });
                                });
                            }
                        });
                        J.attributeArray("statics", [&] {
                            for (auto *Dd : RD->decls()) {
                                if (auto *VD = dyn_cast<VarDecl>(Dd)) {
                                    if (!VD->isStaticDataMember()) continue;
                                    J.object([&] {
                                        J.attribute("name", VD->getNameAsString());
                                        J.attribute("did", C.declId(VD));
                                        J.attribute("t", C.typeStr(VD->getType()));
                                        if (VD->isConstexpr()) J.attribute("constexpr", true);
                                        D.loc(VD->getLocation());
                                        if (VD->hasInit() && VD->getInit())
                                            J.attributeArray("c", [&] { D.stmt(VD->getInit()); });
                                    });
                                }
                            }
                        });
                        J.attributeArray("typedefs", [&] {
                            for (auto *Dd : RD->decls()) {
                                if (auto *TD = dyn_cast<TypedefNameDecl>(Dd)) {
                                    J.object([&] {
                                        J.attribute("name", TD->getNameAsString());
                                        J.attribute("t", C.typeStr(TD->getUnderlyingType()));
                                        D.loc(TD->getLocation());
                                    });
                                }
                            }
                        });
                        J.attributeArray("methods", [&] {
                            for (auto *Dd : RD->decls()) {
                                const CXXMethodDecl *M = dyn_cast<CXXMethodDecl>(Dd);
                                if (auto *FT = dyn_cast<FunctionTemplateDecl>(Dd)) M = dyn_cast<CXXMethodDecl>(FT->getTemplatedDecl());
                                if (!M || M->isImplicit()) continue;
                                J.object([&] {
                                    J.attribute("name", M->getNameAsString());
                                    J.attribute("id", C.declId(M));
                                    J.attribute("const", M->isConst());
                                    J.attribute("static", M->isStatic());
                                    J.attribute("deleted", M->isDeleted());
                                    J.attribute("defaulted", M->isDefaulted());
                                    J.attribute("kind", static_cast<const Decl*>(M)->getDeclKindName());
                                    J.attribute("type", C.typeStr(M->getType()));
                                    if (auto *CD = dyn_cast<CXXConstructorDecl>(M)) {
                                        if (CD->isCopyConstructor()) J.attribute("copyctor", true);
                                        if (CD->isMoveConstructor()) J.attribute("movector", true);
                                    }
                                    if (M->isCopyAssignmentOperator()) J.attribute("copyassign", true);
                                    if (M->isMoveAssignmentOperator()) J.attribute("moveassign", true);
                                    D.loc(M->getLocation());
                                });
                            }
                        });
                    });
                }
            });
            J.attributeArray("globals", [&] {
                for (auto *VD : V.globals) {
                    J.object([&] {
                        J.attribute("name", VD->getNameAsString());
                        J.attribute("qname", VD->getQualifiedNameAsString());
                        J.attribute("did", C.declId(VD));
                        J.attribute("t", C.typeStr(VD->getType()));
                        if (VD->isConstexpr()) J.attribute("constexpr", true);
                        D.loc(VD->getLocation());
                        if (VD->hasInit() && VD->getInit()) J.attributeArray("c", [&] { D.stmt(VD->getInit()); });
                    });
                }
            });
            J.attributeArray("enums", [&] {
                for (auto *ED : V.enums) {
                    J.object([&] {
                        J.attribute("name", ED->getNameAsString());
                        J.attribute("qname", ED->getQualifiedNameAsString());
                        D.loc(ED->getLocation());
                        J.attributeArray("enumerators", [&] {
                            for (auto *EC : ED->enumerators()) {
                                J.object([&] {
                                    J.attribute("name", EC->getNameAsString());
                                    J.attribute("val", EC->getInitVal().getExtValue());
                                    D.loc(EC->getLocation());
                                    if (EC->getInitExpr()) J.attributeArray("c", [&] { D.stmt(EC->getInitExpr()); });
                                });
                            }
                        });
                    });
                }
            });
            J.attributeArray("files", [&] { for (auto &f : C.files) J.value(f); });
        });
        Out->flush();
    }
};

class Action : public ASTFrontendAction {
public:
    std::unique_ptr<ASTConsumer> CreateASTConsumer(CompilerInstance &, StringRef) override {
        return std::make_unique<Consumer>();
    }
};

} // namespace

int main(int argc, const char **argv) {
    auto Exp = tooling::CommonOptionsParser::create(argc, argv, Cat);
    if (!Exp) { llvm::errs() << Exp.takeError(); return 3; }
    tooling::ClangTool Tool(Exp->getCompilations(), Exp->getSourcePathList());
    int rc = Tool.run(tooling::newFrontendActionFactory<Action>().get());
    return rc;
}
