#!/bin/sh
# builds tbfscan from source, offline (clang 14 libTooling)
set -e
cd "$(dirname "$0")"
mkdir -p ../../build
if [ ../../build/tbfscan -nt tbfscan.cc ]; then exit 0; fi
clang++ $(llvm-config-14 --cxxflags) -fno-rtti -O1 tbfscan.cc -o ../../build/tbfscan \
   /usr/lib/llvm-14/lib/libclang-cpp.so.14 /usr/lib/llvm-14/lib/libLLVM-14.so
