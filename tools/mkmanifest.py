#!/usr/bin/env python3
"""Regenerates /verif/MANIFEST.json from the table below (kept in one place so it is always valid)."""
import json, os, sys
HERE = os.path.dirname(os.path.dirname(os.path.abspath(__file__)))
sys.path.insert(0, os.path.join(HERE, "rules"))

CHECKS = {}   # pid -> dict(level, text, note, technique, design)
NA = {}       # pid -> reason

def claim(pid, level, text, note, technique, design):
    CHECKS[pid] = dict(level=level, text=text, note=note, technique=technique, design=design)

exec(open(os.path.join(HERE, "tools", "manifest_table.py")).read())

props = [json.loads(l)["id"] for l in open(os.path.join(HERE, "properties.jsonl"))]
checks = []
for pid in props:
    if pid in CHECKS:
        c = CHECKS[pid]
        checks.append({
            "property_id": pid,
            "quick_cmd": "./check %s --tier quick" % pid,
            "thorough_cmd": "./check %s --tier thorough" % pid,
            "evidence_file": "evidence/%s.json" % pid,
            "replay_cmd_template": "./check %s --replay {path}" % pid,
            "engine": "tbfscan+rules",
            "level_claimed": {"category": c["level"], "text": c["text"], "design_ref": c["design"]},
            "level_note": c["note"],
            "technique": c["technique"],
        })
    elif pid not in NA:
        raise SystemExit("property %s neither claimed nor not_applicable" % pid)
m = {
    "version": 1,
    "setup_cmd": "sh tools/tbfscan/build.sh",
    "hooks": {
        "guard": "TBFMM_VERIF",
        "enable": "no hooks: the checks analyse /repo's sources as they are (clang AST of the headers, generated witness TUs); nothing in /repo is guarded by the define",
        "baseline_off_cmd": "cmake --build /repo/_build && ctest --test-dir /repo/_build -j8 --timeout 900",
        "source_commits": [],
        "add_only": True,
    },
    "engines": [
        {"name": "tbfscan", "path": "tools/tbfscan/tbfscan.cc", "serves_properties": sorted(CHECKS), "kind_free_text": "clang 14 libTooling fact exporter (AST of template patterns, OpenMP clauses, lambda captures)"},
        {"name": "rules", "path": "rules/", "serves_properties": sorted(CHECKS), "kind_free_text": "python rule engines over the exported facts + compile(-fail) witnesses with the repository's compiler flags"},
    ],
    "checks": checks,
    "not_applicable": [{"property_id": p, "reason": NA[p]} for p in props if p in NA and p not in CHECKS],
    "notes": "Technique family: static analysis only. exit 0 held / 1 VIOLATION / 2 analysis broken (never a pass, never a violation). Known findings: known_findings.json. See DESIGN.md.",
}
json.dump(m, open(os.path.join(HERE, "MANIFEST.json"), "w"), indent=1)
print("MANIFEST.json: %d checks, %d not applicable" % (len(checks), len(m["not_applicable"])))
