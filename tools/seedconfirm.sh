#!/bin/bash
# Confirms a seeded change and runs the checks against it.
#   tools/seedconfirm.sh <seed dir with patch.diff + run.sh|demo.cpp> [checks...]
# 1. demo on the unchanged /repo must pass
# 2. fresh scratch worktree + patch: demo must fail; full unit-test suite must build and pass
# 3. listed checks (default: all claimed, quick) are run against the changed worktree (TBF_REPO); /repo itself is never modified
set -u
SEED=$(readlink -f "$1"); shift
CHECKS="$@"
VERIF=$(dirname "$(dirname "$(readlink -f "$0")")")
W=$(mktemp -d /tmp/seedconfirm.XXXXXX)
LOG=$SEED/confirm.log
: > $LOG
rundemo() { # root
  if [ -x "$SEED/run.sh" ]; then (cd "$SEED" && timeout 900 ./run.sh "$1") >> $LOG 2>&1; return $?; fi
  g++ -std=c++17 -fopenmp -O1 -DNDEBUG -DTBF_USE_OPENMP -DTBF_USE_FFTW -I"$1/src" "$SEED/demo.cpp" -o "$W/demo" -lfftw3 -lfftw3f >> $LOG 2>&1 || return 99
  (cd "$W" && timeout 900 ./demo "$1") >> $LOG 2>&1
}
echo "== demo on unchanged /repo" | tee -a $LOG
rundemo /repo; RC0=$?; echo "   exit $RC0 (0 expected)" | tee -a $LOG
git -C /repo worktree add --detach "$W/wt" HEAD >> $LOG 2>&1
git -C "$W/wt" apply "$SEED/patch.diff" >> $LOG 2>&1 || { echo "PATCH DOES NOT APPLY" | tee -a $LOG; }
echo "== demo on the changed tree" | tee -a $LOG
rundemo "$W/wt"; RC1=$?; echo "   exit $RC1 (non-zero expected)" | tee -a $LOG
if [ "${SKIP_SUITE:-0}" != "1" ]; then
  echo "== full unit-test suite on the changed tree" | tee -a $LOG
  (cmake -G Ninja -S "$W/wt" -B "$W/wt/_build" -DCMAKE_BUILD_TYPE=RelWithDebInfo -DBUILD_TESTS=ON > "$W/cmake.log" 2>&1 && cmake --build "$W/wt/_build" -j 14 > "$W/build.log" 2>&1); BRC=$?
  echo "   build exit $BRC" | tee -a $LOG
  (ctest --test-dir "$W/wt/_build" -j8 --timeout 900 2>&1 | tail -4) | tee -a $LOG
fi
echo "== checks against the changed tree (TBF_REPO=scratch worktree, same as applying the patch to /repo)" | tee -a $LOG
[ -z "$CHECKS" ] && CHECKS=$(python3 -c "import json;print(' '.join(c['property_id'] for c in json.load(open('$VERIF/MANIFEST.json'))['checks']))")
for c in $CHECKS; do
  OUT=$(cd $VERIF && TBF_REPO=$W/wt TBF_OUT=$W/out ./check $c --tier ${TIER:-quick} 2>&1); rc=$?
  echo "   $c exit $rc" | tee -a $LOG
  [ $rc -ne 0 ] && echo "$OUT" | grep -E 'violated rule|ANALYSIS-BROKEN' | head -4 | cut -c1-400 | tee -a $LOG
done
git -C /repo worktree remove --force "$W/wt" >> $LOG 2>&1
rm -rf "$W"
