#!/bin/bash
# tools/seedintake.sh <tag under /tmp/wt> <seed directory name>
# copies a sub-agent's SEED directory into seeded/<name>, confirms it (tools/seedconfirm.sh) and removes the worktree
set -u
TAG=$1; NAME=$2
VERIF=$(dirname "$(dirname "$(readlink -f "$0")")")
SRC=/tmp/wt/$TAG/SEED
[ -f "$SRC/patch.diff" ] || git -C /tmp/wt/$TAG diff -- src > "$SRC/patch.diff"
mkdir -p "$VERIF/seeded/$NAME"
for f in "$SRC"/*; do
  b=$(basename "$f")
  case "$b" in TASK.md|demo|*.o|_build|*.log) continue;; esac
  [ -f "$f" ] && [ -x "$f" ] && file "$f" | grep -q ELF && continue
  cp -r "$f" "$VERIF/seeded/$NAME/"
done
git -C /repo worktree remove --force /tmp/wt/$TAG
"$VERIF/tools/seedconfirm.sh" "$VERIF/seeded/$NAME"
