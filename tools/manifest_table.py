# table consumed by mkmanifest.py
claim("C03", "other",
      "Decides the five structural conditions that make a task executor's result independent of the schedule - the schedule quantifier is removed because no rule looks at an interleaving: "
      "(a) same submissions as the sequential reference (per stage the set of wrapper applications with the origin of every argument, level interval, guard, list-builder and mapper calls) and same walk (control skeleton of the group cursors: loop / branch conditions, which cursor each branch advances); "
      "(b) the dependencies each task declares cover the memory blocks its wrapper calls read/write (effects derived from the wrapper's kernel-call slots and the container classes); "
      "(c) nothing a deferred task dereferences can be dead: firstprivate lists, lambda closures, stage-function frames; (d) the kernel is selected by the executing worker's id inside the task, the per-worker vector is grown before submission, the shared wrapper has no mutable state; "
      "(e) task-creating stage functions run only inside the joining region of execute(). Both tiers: both OpenMP executors, both Specx executors (same rules on task lambdas / SpRead / SpCommutativeWrite) and both StarPU executors (codelet table vs submission, pack/unpack agreement, callback effects vs access modes, handle slot vs block and level, handle index advancing in lock-step with its group iterator, join, per-worker kernel) through declaration-only stub headers. "
      "Numerical equality 'to rounding' for non-additive kernels and the behaviour of the real Specx/StarPU runtimes are not decided.",
      "Trusted: clang 14 front end + tbfscan, OpenMP data-sharing semantics as implemented by g++ 12 (closure reached through firstprivate(__closure): -fdump-tree-omplower + ASan replay), the operator role table; Specx/StarPU semantics as documented (stubs only declare names).",
      "capture-lifetime / dependence-vs-effect / submission-summary rules over the clang AST (libTooling)", "DESIGN.md §2 C03, §8")
claim("C12", "other",
      "Decides for every executor class (sequential, target/source, OpenMP x2, periodic top trees, Specx x2 and StarPU x2 through declaration stubs, in both tiers): "
      "flag->stage map (each stage guarded by exactly its own bit, flags distinct single bits, composite masks = documented unions), stage order, "
      "level-loop intervals normalised with sympy to [U,H-2]/[U,H-1] with U=max(0,arg), P2M/L2P guard H>U, and the write set of each stage from the wrapper's slot-level effect summary. "
      "Together these are the structural content of 'staged runs equal a full run and write only their outputs'; histories are covered because no state other than the tree survives a stage.",
      "Trusted: clang 14 + tbfscan, the frozen operator role table (which kernel slot is the output), sympy polynomial normal form; Specx/StarPU only through declaration stubs.",
      "flag/stage/level-interval/write-set summaries from the clang AST, sympy interval normal forms", "DESIGN.md §2 C12")

claim("C19", "proof",
      "Build half of the statement: every documented configuration is generated as its own translation unit (constructs the tree with explicit/automatic block size, executes, rebuilds, exports) "
      "and must type-check with the repository's own compiler flags - quick: a pairwise-covering subset of the 1280-configuration product, thorough: the full product with g++ plus the subset with clang++; "
      "include-guard macros are unique across src/; the selector header builds with OpenMP+Specx+StarPU all defined (declaration stubs). "
      "The compiler is the decision procedure, so the verdict holds for the configuration, not for a sampled input.",
      "Trusted: g++ 12 / clang++ 14 front ends, the witness generator. Not decided: that the configurations then satisfy C01/C06/C13 (value-level).",
      "generated must-compile witness TUs per configuration + include-guard uniqueness", "DESIGN.md §2 C19")

claim("C17", "other",
      "Index-domain rule on the two export functions: each subscripted dimension of the returned per-particle array and of the per-leaf pointer arrays has a declared extent "
      "(original index / value(N) / position in leaf) and each subscript a domain derived from its loop bound or from the original-index array; extent == domain per dimension, "
      "the staging element type equals the tree's value type, the array is allocated with one entry per particle, the target/source tree forwards to the right tree; "
      "must-compile witnesses for 1-6 data values, 0-4 result values, data type != real type. This is the whole content of 'entry i holds particle i's values' for every input.",
      "Trusted: clang 14 + tbfscan; that applyToAllLeaves hands (header, original indexes, data pointers, result pointers) - checked against C06's construction clauses. Values stored at construction are C06's matter.",
      "index-domain analysis (extent vs subscript domain) over the clang AST + arity witnesses", "DESIGN.md §2 C17")
claim("C13", "other",
      "Structural clauses of rebuild(): it instantiates for every shipped ordering/dimension (witnesses); its gather and scatter lambdas obey the index-domain rule and the scatter inverts the result gather with staging arrays of the tree's own value types; "
      "its construction facts (sorter type and arguments, split size, every emplace_back / parent-index / leaf-index call with argument origins, flush condition, level interval) equal the constructor's; it starts from cleared containers. "
      "Hence a rebuilt tree is produced by the same construction as a fresh one from the gathered particles. That moved particles land in the right leaf is the arithmetic of C06 and is not decided.",
      "Trusted: clang 14 + tbfscan, origin resolver (rules/stages.py), g++ for witnesses.",
      "index-domain + constructor/rebuild construction-fact comparison over argument origins + must-compile witnesses", "DESIGN.md §2 C13")

claim("C18", "other",
      "Structural clauses that make the reported counts equal the number of elementary interactions for every tree and schedule: each decorator operator performs its state update and forwards exactly once to the wrapped kernel's same operator with its own parameters in order (results unchanged); "
      "the counter's increments equal, as polynomials over the operator's count parameters, the documented quantities; Reduce merges every field once from each operand and every executor's applyToAllKernels visits every per-worker copy "
      "(the per-worker selection inside tasks is C03.d); the documented merge and decorator composition compile for sequential, OpenMP and target/source executors. Numeric totals for a given tree are not decided.",
      "Trusted: clang 14 + tbfscan, the frozen operator role table (which parameter is which count), sympy polynomial normal form, g++ for the witness.",
      "forwarding / increment-polynomial / field-coverage rules over the clang AST + must-compile merge witness", "DESIGN.md §2 C18")

claim("C09", "other",
      "Type-level and who-may-call clauses of target/source mode: (1) compile witness - the source tree has zero result values and empty locals, the target tree empty multipoles, the one-sided near-field operator has no source-result slot and sees source/target headers and data as const (probe kernel instantiated through the sequential and OpenMP target/source executors), so no storage exists in which a source could receive a result, for every input; "
      "(2) the target/source executors call only the one-sided near-field wrapper, build the neighbour list unfiltered, merge in-group part and self list and map onto SOURCE groups with the TARGET group as working group (M2L likewise), P2M/M2M touch only source containers and L2L/L2P only target containers - from argument-origin summaries; (3) the OpenMP variant obeys the C03 lifetime/dependence rules. Exactly-once counting is not decided.",
      "Trusted: clang 14 + tbfscan, origin resolver, g++/clang++ for the witness; the Specx variant through the declaration stub in both tiers; thorough adds clang++ as a second front end.",
      "type-level witnesses + who-may-call / list-flag / container-role rules over executor summaries", "DESIGN.md §2 C09")

claim("C02", "other",
      "Three structural clauses decided for every kernel call site of the group wrapper (12), of the periodic top-tree executors (12) and every level-carrying wrapper call of the executors: "
      "(1) role coherence - all argument slots describing one object are fed from the same group and index through the accessor of their part, position codes derive from the same child / interaction record as the cell they accompany, vectors/arrays/counts are filled in lock step, one interaction record per call; "
      "(2) level/role - the level argument is the loop level, parent/target groups come from that level and child groups from the next (which wrapper parameter feeds which role is derived from the wrapper itself), virtual-level storage of the top trees agrees with the level argument; "
      "(3) array-fill idiom (a[n]=e; n+=1 from 0 with reset after each call, or constant slots [0,n)) and wrapper calls dominated by n>0. "
      "A swapped accessor/index/level or an unwritten slot breaks the behaviour for every input that reaches the site. That particles lie in their leaf's box or that a code decodes to the true offset (value-level) is not decided.",
      "Trusted: clang 14 + tbfscan, slot resolver and the frozen operator role table (rules/coherence.py ROLES, from the shipped kernels' signatures).",
      "slot-level role-coherence, level/role origin analysis and array-fill idiom rules over the clang AST", "DESIGN.md §2 C02")

claim("C06", "other",
      "Seven clauses: (1) zero state - group memory is allocated only in TbfMemoryBlock::resetBlocksFromSizes and on every path the memset of the allocation lies between the (re)allocation decision and item construction, group constructors size every block through it; "
      "(2) no narrowing on the copy path - a witness with real=float, data=double(/long double) through constructor, rebuild, export and target/source trees compiled with -Wconversion must be silent under src/core and src/containers; "
      "(3) execution cannot alter symbolic data - a probe kernel instantiated through the sequential, OpenMP, target/source and periodic top-tree executors sees headers as const and particle data as pointers to const at every operator, and shipped kernels cast const away only into const callee parameters; "
      "(4) a curve index is never converted twice in an ordering class with Morton<->curve converters; (5) copy provenance in the group constructor: sorted slot p stores getParticleIndex(p) as original index and row positions[getParticleIndex(p)][v] as value v - index and data of one particle stay together; "
      "(6) grid range, an interval analysis in exact arithmetic (symbolic in box width W and cells per dimension N = 2^(height-1)): every relative position of the CLOSED box [0, W] maps to a grid coordinate in [0, N-1], so a particle on the upper face lands in the last cell and not outside the grid; (7) the box corner is subtracted from the particle's coordinate before anything converts that coordinate to the tree's coordinate type (data type wider than coordinate type, box away from the origin). Floating-point rounding of the division and uniqueness of storage are value-level and not decided. Particle *indices* are handed to L2P/P2P as `long*` by the wrapper; shipped kernels take them const - noted, not claimed.",
      "Trusted: clang 14 + tbfscan, g++ -Wconversion as narrowing oracle, g++/clang++ for the probe witness.",
      "must-pass-through / who-may-allocate rules, -Wconversion witness, type-level probe kernel, curve-domain typing", "DESIGN.md §2 C06")

claim("C20", "proof",
      "For the five scalar direct-interaction routines of FP2PR.hpp: (1) loop shape - full rectangle for the mutual/remote routines, strict upper triangle for the in-leaf routine (self term excluded, counts 0 and 1 give empty loops); "
      "(2) the straight-line per-pair body and the per-target accumulator flush are summarised as sympy expressions over x_s, x_t, q_s, q_t and equal dF_t = q_t q_s (x_s-x_t) s^3, dPhi_t = q_s s, and the opposite on the source side for mutual routines, every store accumulating; "
      "by induction over the loops this gives the sums of the statement for all counts and all inputs, including sign, scaling and self-term handling that the suite cannot see because it uses these routines as its own reference; (3) the shipped kernels forward their source/target arguments in role order. Agreement 'to rounding' and the Inastemp path are not decided.",
      "Trusted: clang 14 + tbfscan, sympy normal form, the frozen role table of the routines' parameters (data[0..2] position, data[3] physical value, rhs[0..2] force, rhs[3] potential).",
      "algebraic normal form (sympy) of the per-pair update + loop-shape rule", "DESIGN.md §2 C20")

claim("C11", "other",
      "Four clauses over both shipped ordering classes and the kernels that consume the codes: (1) every site that builds or splits a relative-position code (21 sites: inline encoders of the list builders, helper encoders/decoders, self-list encoder, the rotation kernel's and the uniform handler's closed-form table indices) is reduced to (base, offset, digit order) and all agree on (7,3)/(3,1) with dimension 0 most significant, decoders exist for each base and use the same triple (so decode inverts encode), the upper-half filter is floor(3^Dim/2) < code; "
      "(2) the level upper bound folds to 2^(level*Dim) for every level and Dim 1..4, and no code outside the ordering classes and the 3-D kernels shifts or masks an index by a literal dimension (positive-control fixture); "
      "(3) sibling agreement: Morton and Hilbert list builders / coordinate clamp have equal behavioural atoms, per-cell and per-group builders share limits, wrap shifts, too-close test, child loop and level guards; "
      "(4) bit provenance, by abstract interpretation of the conversion functions for Dim = 1..4 over a per-bit provenance domain: index bit k*Dim+Dim-1-d is a copy of bit k of coordinate d and nothing else for every coordinate bit whose index fits 63 bits, the decoder is the inverse move, parent = drop the low Dim bits, child code = the low Dim bits, child = parent:code (Hilbert: the same around its two table conversions, which stay opaque) - hence bijection below the 63-bit range, parent coordinates = child coordinates >> 1 and code = octant FOR EVERY INPUT of the Morton ordering; "
      "termination of the data-dependent loops is proven by the same run (range-aware comparisons) or refuted by constant-folding the function on a boundary input that provably cycles. "
      "NOT decided: that the lists equal their definition for every cell (the 3^Dim / 2^Dim enumeration), and the Hilbert tables themselves - in particular the tree-height-driven automaton (parents do not contain their children above the leaf level) is recorded as an observation in DESIGN.md. Known finding: getUpperBound(level) is 2^63 = LONG_MIN when level*Dim = 63.",
      "Trusted: clang 14 + tbfscan, sympy expansion of closed forms, the convention table {7:3, 3:1, dim0 first} read from the decoders, the bit-provenance interpreter (rules/bitdep.py: two's-complement 64-bit / 32-bit int semantics, data-dependent loops followed for at most 256 turns).",
      "codec extraction + per-bit provenance abstract interpretation (termination proven / refuted by constant folding) + sibling atoms over the clang AST", "DESIGN.md §2 C11, §8.8")

claim("C14", "other",
      "Three agreement clauses: (1) the addresses of the item-count and offset tables computed by the writer (resetBlocksFromSizes) and by the reader of a raw byte buffer (initHeader) are equal as polynomials in (allocated size, NbBlocks, sizeof(long)), the tables are adjacent, do not overlap and end at the allocation end, the allocation is payload + both tables, block pointers are base + recorded offset in both, offsets are the running sum of block sizes; "
      "(2) in each block kind the size function, both viewers and the element iteration derive the row stride from the same GetLeadingDim(quantity, alignment) and the extent is stride x the other quantity, GetLeadingDim rounds up to the alignment; "
      "(3) getDataPtrsAndSizes(), the raw-memory constructors and the get<X>Ptr/Size accessors (and the StarPU handle registration, through the declaration stub) use the same slot order and pair each pointer with its own size. These are necessary for a byte copy viewed through the raw-memory constructor to be an equivalent view, for every layout. In-bounds access for every count/size is arithmetic and not decided.",
      "Trusted: clang 14 + tbfscan, sympy polynomial normal form; StarPU part through the declaration stub.",
      "writer/reader address polynomials, stride-source and slot-order agreement over the clang AST", "DESIGN.md §2 C14")

claim("C15", "other",
      "Only the clauses that the shape of the code settles (the property as a whole is sanitizer territory and is NOT claimed beyond them): (1) acquire/release pairing on all paths - every TbfUtils::CreateNew result is handed to exactly one task that deletes it exactly once, unconditionally, after its last use, the creator never touches it again; every shifted position copy reaches FreePositions as the last statement of its block with no exit in between; inside the shifter every slot is new[]-allocated and delete[]-released; "
      "(2) ownership typestate of TbfMemoryBlock - frees guarded by the ownership flag, flag set exactly at the allocation, move steals and nulls, raw views never own, copying deleted; (3) capture lifetimes of all OpenMP tasks and written position slots (shared rules with C03.c / C02.3). Out-of-bounds, signed overflow, invalid shifts and assertion failures on arbitrary inputs are not decided.",
      "Trusted: clang 14 + tbfscan; structured control flow (no goto) in the analysed functions - an unrecognised construct is exit 2.",
      "acquire/release pairing, ownership typestate and lifetime rules over the clang AST", "DESIGN.md §2 C15")

claim("C10", "other",
      "Consistency clauses of the periodic top tree (both the single-tree and the target/source executor): (1) for each branch of the repetition-count function (-1, 0, >=1 extra levels) the interval reported by the library satisfies hi - lo + 1 == count as an identity in p = 2^n, contains the central box, and the total is count^Dim; "
      "(2) for every transfer window filled into a stack array, (window width)^Dim - (core)^Dim equals the extent the array is declared with (7^Dim-3^Dim, and getNbInteractionsPerCell() = 6^Dim-3^Dim extracted from the ordering class), so the fill neither overruns nor drops images of the window; (3) the two executors agree on formulas, windows, virtual-level loops and box-extension functions. "
      "That every image contributes exactly once and is displaced by the right multiple of the box width (counting / numerics) is NOT decided.",
      "Trusted: clang 14 + tbfscan, sympy identities; the three-branch shape of the formulas (anything else is exit 2).",
      "branch-wise polynomial identities + window-vs-extent agreement + sibling summary comparison", "DESIGN.md §2 C10")
claim("C08", "other",
      "Necessary structural clause of grouping independence: batches are cut at group boundaries, so a target may receive several partial operator calls and every operator must ACCUMULATE. For the 3 shipped kernels x 8 operators every store that reaches an output parameter - directly, through local aliases, or through any helper the output is handed to (followed interprocedurally down to FMemUtils / FBlas / the interpolator / the FFT handler / FP2PR) - is a compound += or -=, the x.real(x.real()+e) idiom, or the single recompute-from-accumulated-input (DFT of the same cell's accumulated expansion); overwriting helpers (copy/set/fill) are rejected. "
      "Plus: the automatic block-size estimate is clamped to >= 1. Equality of the multiset of elementary interactions between two groupings is counting and NOT decided.",
      "Trusted: clang 14 + tbfscan, the frozen operator role table (which parameter is the output), callee resolution by name and arity inside the library.",
      "interprocedural store-form (accumulate-only) effect analysis over the clang AST", "DESIGN.md §2 C08")

claim("C16", "other",
      "Only the soundness of positive answers is decided - a necessary condition of 'returns a handle if and only if it exists': in the three in-group lookups every returned position is dominated by `position != number of elements` and by an equality test between the query and the key stored at that very position, the search runs over [0, count) with a comparator on the same key, every other exit is empty; "
      "at tree level a (group, position) pair is returned only under iterator != end, first <= query <= last and a successful in-group lookup of the same query in that group, groups being searched by their last index; the target/source tree forwards to the right tree. "
      "Completeness (an existing element is always found) rests on the sortedness of groups and cells and on the binary-search helper - run-time data, NOT decided.",
      "Trusted: clang 14 + tbfscan; structured control flow of the lookup functions (early-return guards).",
      "dominance / key-agreement rules on the lookup functions over the clang AST", "DESIGN.md §8.6")

_todo = "check not built yet in this round (see DESIGN.md §7 build order)"
for p in []:
    NA[p] = _todo
claim("C01", "other",
      "Exactly-once is a counting law over all particle sets and tree shapes; which cells the list builders enumerate (the 3^Dim / 2^Dim arithmetic) and that the shared cursor is right in the first place are value-level and NOT decided. Decided are five structural necessary conditions, each visible in the shape of the code on every path: "
      "(1) in every executor (sequential, OpenMP, Specx, StarPU; single tree and target/source) the upward pass M2M and the downward pass L2L pair child groups with parent groups by the same cursor - loop and branch conditions, which cursor each branch advances, where the operator is applied - and P2M / L2P walk leaf and particle groups in the same lock-step; "
      "(2) inside a group pair the wrapper's M2M and L2L share start position, advance, child-counter reset and flush of the last parent (roles derived from the start-position lookups); "
      "(3) a list builder appends each interaction to exactly one of (in-group, out-of-group): the appends are the then / else sides of one branch, same object, out-of-group side not filtered further; "
      "(4) the group mapper sorts its list by SrcFirst (source index primary key) before the first binary search, every search over the list compares that key only, both mapper variants have the same control skeleton; "
      "(5) per single-tree executor stage the in-group half (.first) goes to the in-group wrapper and the out-of-group half (.second) to the mapper, both from the same builder call.",
      "Trusted: clang 14 + tbfscan; origin descriptors of stages.FnModel. Sibling skeletons are compared exactly: a one-sided or near-match difference is a violation, two restructured siblings are exit 2 (no verdict).",
      "control-skeleton agreement of sibling walks + partition / sort-before-search / routing rules over the clang AST", "DESIGN.md §8.7")
claim("C04", "other",
      "The accuracy bound (a floating-point truncation error over all particle positions, tree heights and expansion orders) is NOT decided - no static argument in reach bounds it. Decided are six structural necessary conditions, the places where the rotation kernel must agree with the tree it serves and with itself: "
      "(1) level tables = geometry: the M2M / L2L / M2L translation tables are evaluated symbolically (exact closed forms of the table-building loops in box width W, height H, order P; geometric / arithmetic recurrences summarised) and proven, by induction over the order index, equal to (-b)^j/j!, b^j/j! with b = sqrt(3) W / 2^(level+2) and j!/(|offset| W / 2^level)^(j+1) for every offset of the 7x7x7 window outside the 3x3x3 core under the tree's position code; filled level ranges [0,H-2] / [1,H-1] inside the allocated extents; "
      "(2) every table dimension is subscripted by what it was built for - the level argument, the position code of the child / source visited in this iteration; (3) the child-octant bit convention and polarity of the rotation tables is the Morton child code's (proved by C11.4), offset tables are stored under the tree's code of the vector they are built from; "
      "(4) leaf centre = corner + (coordinate + 1/2) W / 2^(H-1), one function for P2M and L2P; (5) operator-reachable code writes no kernel member and keeps no static local (results independent of executor, schedule and earlier calls); (6) all constructors, in particular the copy constructor used for the per-worker kernels, initialise the same members and run the same table builders. "
      "A wrong level width, an off-by-one level range, a table indexed by the item counter instead of the position code (invisible on dense trees), a mirrored octant, a member cached by an operator each break the stated accuracy for the inputs named in the report.",
      "Trusted: clang 14 + tbfscan, sympy, the symx closed-form summariser (recurrences v*=c, v/=c, v+=c, v=-v only; anything else is opaque and cannot discharge an obligation), the operator role table, C06.6 for the configuration's leaf width. The spherical-harmonic formulas and the d-matrix recurrences are not examined.",
      "symbolic closed forms of table-building loops (sympy, induction over the order index) + subscript-coherence, octant/offset convention, leaf-centre, member-write and constructor-agreement rules over the clang AST", "DESIGN.md §8.12")
claim("C05", "other",
      "The interpolation error bound is NOT decided. Decided are five structural necessary conditions under which the uniform kernel's results cannot depend on the executor, the schedule, earlier calls or the batching, and under which it agrees with the tree: "
      "(1) isolation of kernel copies: every object holding scratch storage written by operator-reachable code (the FFT time / frequency buffers and plans) is held by value on every path from the kernel class and its copy constructor allocates new buffers; what copies share (interpolator, M2L operators) is never written by operator-reachable code; no operator-reachable static local; "
      "(2) no carried state: in every operator-reachable function a scratch buffer is wholly written (memcpy / memset over its allocated extent) before a plan execution or anything else reads it, and no function hands out a pointer to a scratch buffer - a definite-assignment analysis over the member events of each function; "
      "(3) batching: P2M and M2M end by recomputing the transformed expansion of their output cell from that cell's accumulated expansion (C08.1 decides that the real expansion accumulates); "
      "(4) the transfer is scaled with W / 2^level of the operator's level argument, every per-child / per-source call gets the position code of the item whose expansion it gets, the relative child centres tabulated for the interpolators follow the Morton child code; "
      "(5) leaf centre = (centre - W/2) + (coordinate + 1/2) W / 2^(H-1), shared by P2M and L2P.",
      "Trusted: clang 14 + tbfscan, the kstate ownership graph (member types resolved through the declaring class's typedefs and bases; callees resolved through the declared class of the member they are called on), FFTW reading a plan's input and defining its output buffer, sympy. The interpolation formulas are not examined.",
      "shared-state (ownership graph) and definite-assignment analysis of kernel scratch buffers + level-scaling, position-code and leaf-centre rules over the clang AST", "DESIGN.md §8.12")
claim("C07", "other",
      "The invariant itself (sorted, disjoint, ancestor-closed for every occupancy pattern) is established by loops over run-time data and is NOT decided. Decided are five structural necessary conditions of the code that builds it (tree constructor, rebuild(), both group constructors, the particle sorter; a target/source tree is two such trees): "
      "(1) header = content: a group's recorded first / last index and count come from the first / last element and the length of the very sequence its cells are filled from, cell i <- element i over [0,n); leaf records are cut exactly where the particle's key changes, record c <- leaf c, offset = first particle; "
      "(2) flush discipline, a typestate analysis (empty / holding un-emitted cells / emitted-not-cleared) of every index buffer: nothing appended after an emit without clear (no cell in two groups), no possibly-empty buffer emitted (no empty group), no double emit, nothing un-emitted when cleared or at end of scope (no cell lost); "
      "(3) block bound: a cell group is emitted as soon as its size equals the quantity particle groups are cut by, a member set from the constructor's block-size argument; the sorter's partition is (ceil(n/S) groups, group g = [g*S, min((g+1)*S, n)), particle ranges contiguous from 0), compared as sympy normal forms; "
      "(4) ancestor closure: what is appended at level L is the parent of cell i of each group of level L+1 in order, i over [0, nbCells), de-duplicated against the value appended last; levels H-2..0 each once; the leaf level has one cell group per particle group with that group's leaf indices; "
      "(5) sorted leaves: the sort comparator's key is the member filled from getIndexFromPosition and the key leaves are cut on, the cut comes after the sort.",
      "Trusted: clang 14 + tbfscan, origin descriptors / behavioural atoms, sympy for the partition arithmetic. Unrecognised restructuring of these functions is exit 2, not a verdict.",
      "typestate (buffer flush discipline) + header/content, block-bound, closure and sort-key agreement rules over the clang AST", "DESIGN.md §8.10")
