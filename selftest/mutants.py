"""Table of scratch-copy mutants used to test the checkers both ways (selftest/run.py).
Each entry: name, props (checks that must fire), rule (substring that must be named), edits
[(file relative to repo root, old text, new text)].  All edits keep the library compiling."""
OMP = "src/algorithms/openmp/tbfopenmpalgorithm.hpp"
OMPT = "src/algorithms/openmp/tbfopenmpalgorithmtsm.hpp"

MUTANTS = [
    dict(name="omp-L2L-level-not-firstprivate", props=["C03"], rule="C03.c.capture-lifetime", mentions="idxLevel",
         edits=[(OMP, "firstprivate(idxLevel, upperGroup, lowerGroup, kernelsPtr)  priority(priorities.getL2LPriority(idxLevel))",
                 "firstprivate(upperGroup, lowerGroup, kernelsPtr)  priority(priorities.getL2LPriority(idxLevel))")]),
    dict(name="omp-M2M-commute-to-in", props=["C03"], rule="C03.b.deps-cover-effects",
         edits=[(OMP, "depend(in:ptr_lowerGroupGetMultipolePtr[0]) depend(commute:ptr_upperGroupGetMultipolePtr[0])",
                 "depend(in:ptr_lowerGroupGetMultipolePtr[0]) depend(in:ptr_upperGroupGetMultipolePtr[0])")]),
    dict(name="omp-P2P-swap-src-target", props=["C03"], rule="C03.a.same-submissions",
         edits=[(OMP, "P2PBetweenGroups(kernelsPtr[omp_get_thread_num()], *groupSrcPtr, *groupTargetPtr,", "P2PBetweenGroups(kernelsPtr[omp_get_thread_num()], *groupTargetPtr, *groupSrcPtr,")]),
    dict(name="omp-P2M-kernel-zero", props=["C03"], rule="C03.d.per-worker-kernel",
         edits=[(OMP, "kernelWrapper.P2M(kernelsPtr[omp_get_thread_num()]", "kernelWrapper.P2M(kernelsPtr[0]")]),
    dict(name="omp-L2L-dep-on-wrong-group", props=["C03"], rule="C03.b.deps-cover-effects",
         edits=[(OMP, "auto lowerGroupGetLocalPtr = lowerGroup->getLocalPtr();", "auto lowerGroupGetLocalPtr = upperGroup->getLocalPtr();")]),
    dict(name="omp-M2L-loop-lt", props=["C03"], rule="C03.a.same-submissions", mentions="level interval",
         edits=[(OMP, "for(long int idxLevel = stopUpperLevel ; idxLevel <= configuration.getTreeHeight()-1 ; ++idxLevel){\n            auto& cellGroups",
                 "for(long int idxLevel = stopUpperLevel ; idxLevel < configuration.getTreeHeight()-1 ; ++idxLevel){\n            auto& cellGroups")]),
    dict(name="omp-M2L-member-through-closure", props=["C03"], rule="C03.c.capture-lifetime", mentions="closure",
         edits=[(OMP, "kernelWrapperPtr->M2LBetweenGroups(", "kernelWrapper.M2LBetweenGroups(")]),
    dict(name="omptsm-P2P-kernel-tid-outside", props=["C03"], rule="C03.d.per-worker-kernel",
         edits=[(OMPT, "                auto* kernelsPtr = kernels.data();\n                const auto* kernelWrapperPtr = &kernelWrapper;\n\n#pragma omp task depend(in:ptr_groupSrcGetDataPtr[0]",
                 "                auto* kernelsPtr = kernels.data() + omp_get_thread_num();\n                const auto* kernelWrapperPtr = &kernelWrapper;\n\n#pragma omp task depend(in:ptr_groupSrcGetDataPtr[0]"),
                (OMPT, "P2PBetweenGroupsTsm(kernelsPtr[omp_get_thread_num()],", "P2PBetweenGroupsTsm(kernelsPtr[0],")]),
    dict(name="omptsm-L2P-missing-rhs-dep", props=["C03"], rule="C03.b.deps-cover-effects",
         edits=[(OMPT, "depend(in:ptr_leafGroupObjGetLocalPtr[0], ptr_particleGroupObjGetDataPtr[0]) depend(commute:ptr_particleGroupObjGetRhsPtr[0])",
                 "depend(in:ptr_leafGroupObjGetLocalPtr[0], ptr_particleGroupObjGetDataPtr[0])")]),
    dict(name="omptsm-M2M-wrong-level-child", props=["C03"], rule="C03.a.same-submissions",
         edits=[(OMPT, "const auto& lowerCellGroup = inTree.getCellGroupsAtLevelSource(idxLevel+1);", "const auto& lowerCellGroup = inTree.getCellGroupsAtLevelSource(idxLevel);")]),
    dict(name="omp-stage-outside-parallel", props=["C03"], rule="C03.e.join",
         edits=[(OMP, "        increaseNumberOfKernels();\n\n#pragma omp parallel", "        increaseNumberOfKernels();\n        if(inOperationToProceed == -1){ P2M(inTree); }\n\n#pragma omp parallel")]),
]
