#!/usr/bin/env python3-vt
"""Both-ways self-test of the checkers.

For every mutant in selftest/mutants.py: copy /repo/src to a scratch directory (outside /repo and
/verif), apply the textual edit, run `./check <property>` against the copy (TBF_REPO) with evidence
redirected (TBF_OUT), and require exit 1 naming the expected rule.  Also requires exit 0 on the
unmodified tree.  Mutants are *compiling* edits (g++ -fsyntax-only of the affected umbrella is part
of the test when "compile" is given).

  selftest/run.py [pattern]       run mutants whose name contains pattern (default: all)
"""
import concurrent.futures
import os
import shutil
import subprocess
import sys
import tempfile

HERE = os.path.dirname(os.path.abspath(__file__))
VERIF = os.path.dirname(HERE)
sys.path.insert(0, HERE)
from mutants import MUTANTS  # noqa: E402

REPO = "/repo"


def run_one(m):
    d = tempfile.mkdtemp(prefix="tbfmut.")
    try:
        shutil.copytree(os.path.join(REPO, "src"), os.path.join(d, "src"))
        for f, old, new in m["edits"]:
            p = os.path.join(d, f)
            s = open(p).read()
            if s.count(old) < 1:
                return m["name"], False, "edit does not apply: %r not in %s" % (old[:60], f)
            s = s.replace(old, new, 1) if not m.get("all") else s.replace(old, new)
            open(p, "w").write(s)
        env = dict(os.environ, TBF_REPO=d, TBF_OUT=os.path.join(d, "out"))
        out = []
        for pid in m["props"]:
            tier = m.get("tier", "quick")
            p = subprocess.run([os.path.join(VERIF, "check"), pid, "--tier", tier], env=env, stdout=subprocess.PIPE, stderr=subprocess.STDOUT, universal_newlines=True)
            want = m.get("expect_rc", 1)
            if p.returncode != want:
                return m["name"], False, "%s: exit %d, expected %d\n%s" % (pid, p.returncode, want, p.stdout[-1500:])
            if want == 1 and m.get("rule") and m["rule"] not in p.stdout:
                return m["name"], False, "%s: exit 1 but rule %s not named\n%s" % (pid, m["rule"], p.stdout[-1500:])
            if want == 1 and m.get("mentions") and m["mentions"] not in p.stdout:
                return m["name"], False, "%s: report does not mention %s\n%s" % (pid, m["mentions"], p.stdout[-1500:])
            out.append(pid)
        return m["name"], True, "caught by " + ",".join(out) + (" (%s)" % m.get("rule", ""))
    finally:
        shutil.rmtree(d, ignore_errors=True)


def main():
    pat = sys.argv[1] if len(sys.argv) > 1 else ""
    ms = [m for m in MUTANTS if pat in m["name"] or pat in ",".join(m["props"])]
    ok = True
    with concurrent.futures.ThreadPoolExecutor(max_workers=12) as ex:
        for name, good, msg in ex.map(run_one, ms):
            print("%-5s %-44s %s" % ("ok" if good else "FAIL", name, msg if good else "\n" + msg))
            ok = ok and good
    print("%d mutants, %s" % (len(ms), "all caught" if ok else "SOME MISSED"))
    return 0 if ok else 1


if __name__ == "__main__":
    sys.exit(main())
