// positive control for C14.6: a view class with a raw-memory constructor that forgets to establish a member derived from the buffer
// (View2: reported for `rows`), and one whose every constructor establishes it through a helper (View1: silent)
#include <cstddef>
struct Block { unsigned char* p; std::size_t n; Block() : p(nullptr), n(0) {} Block(unsigned char* a, std::size_t b) : p(a), n(b) {} };
class View1 {
    Block objectData;
    long* rows = nullptr;
    void refresh() { rows = reinterpret_cast<long*>(objectData.p); }
public:
    View1(unsigned char* a, const std::size_t b) : objectData(a, b) { refresh(); }
    View1(const Block& inB, int) : objectData(inB) { refresh(); }
};
class View2 {
    Block objectData;
    long* rows = nullptr;
    void refresh() { rows = reinterpret_cast<long*>(objectData.p); }
public:
    View2(unsigned char* a, const std::size_t b) : objectData(a, b) { refresh(); }
    View2(const Block& inB, int) : objectData(inB) { }
    long first() const { return rows[0]; }
};
