// positive control for C15.4 (32-bit shift by a run-time level): exactly 2 of the 5 shifts must be reported on every run
template <long int Dim>
struct Grid {
    long int height;
    long int cellsPerDim(const long int inLevel) const { return (1 << inLevel); }           // reported: int << run-time
    double leafWidth() const { return 1.0 / double(1 << (height - 1)); }                      // reported: int << member
    long int cellsPerDimWide(const long int inLevel) const { return (1L << inLevel); }      // silent: 64-bit
    long int children() const { return 1 << Dim; }                                            // silent: compile-time amount
    long int mask() const { long int m = 0; for(int d = 0 ; d < Dim ; ++d){ m |= (1 << d); } return m; } // silent: loop bounded by a constant
};
