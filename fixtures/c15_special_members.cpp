// positive controls for C15.11 (a value-returning function whose end can be reached: Buf::operator=, reported; Buf::size and
// Buf::pick are silent) and C15.12 (a constructor that uses a pointer member before giving it a value: the move constructor of Plan,
// reported; its other constructor is silent)
#include <cstring>
#include <cstdlib>
struct Buf {
    int* p; int n;
    Buf() : p(nullptr), n(0) {}
    Buf& operator=(const Buf& o) { n = o.n; p = o.p; }
    int size() const { if (n > 0) { return n; } else { return 0; } }
    int pick(int i) const { switch (i) { case 0: return 1; default: break; } std::abort(); }
};
struct Plan {
    void* plan; int n;
    explicit Plan(int k) : n(k) { plan = std::malloc(8); }
    Plan(Plan&& o) : n(o.n) { std::memcpy(plan, o.plan, sizeof(plan)); o.n = 0; }
};
