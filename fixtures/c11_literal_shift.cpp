// positive control for C11.2 (literal-dimension shift outside an ordering class): must be reported on every run
template <class IndexType>
struct TreeWalker {
    IndexType parentOf(const IndexType inIndex) const { return inIndex >> 3; }
    long int childCode(const IndexType inIndex) const { return inIndex & 7; }
};
