// positive control for C15.5: `lastLeaf` keeps the address of an element of `leaves` and refill() does not reset it (reported);
// `lastCell` is reset by refill() (silent)
#include <vector>
struct Group { long first, last; };
class Forest {
    std::vector<Group> leaves;
    std::vector<Group> cells;
    Group* lastLeaf = nullptr;
    Group* lastCell = nullptr;
public:
    Group* findLeaf(long idx){
        for(auto& g : leaves){ if(g.first <= idx && idx <= g.last){ Group& hit = g; lastLeaf = &hit; return lastLeaf; } }
        return nullptr;
    }
    Group* findCell(long idx){
        for(auto& g : cells){ if(g.first <= idx && idx <= g.last){ lastCell = &g; return lastCell; } }
        return nullptr;
    }
    void refill(long n){
        leaves.clear();
        cells.clear();
        lastCell = nullptr;
        for(long i = 0 ; i < n ; ++i){ leaves.emplace_back(Group{i, i}); cells.emplace_back(Group{i, i}); }
    }
};
