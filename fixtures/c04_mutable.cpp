// positive control: a kernel class with a mutable member (a cache filled from const operators): reported; one without: silent
#include <vector>
class CachingKernel { mutable std::vector<double> cache; public: void P2P(const double* s, long n) const { if(cache.size() != std::size_t(n)) cache.assign(s, s + n); } };
class PlainKernel { std::vector<double> table; public: void P2P(const double*, long) const {} };
