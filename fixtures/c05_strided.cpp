// positive control for the strided-loop rule: an unrolled main loop without its remainder (bad: reported), the same with a remainder
// loop (good), and a loop whose trip range is a multiple of the step by construction (exact)
void bad(double* x, const double* y, const unsigned int n){
    for(unsigned int j = 0 ; j < 2*n-3 ; j += 4){ x[j] += y[j]; x[j+1] += y[j+1]; x[j+2] += y[j+2]; x[j+3] += y[j+3]; }
}
void good(double* x, const double* y, const unsigned int n){
    unsigned int j = 0;
    for( ; j + 3 < n ; j += 4){ x[j] += y[j]; x[j+1] += y[j+1]; x[j+2] += y[j+2]; x[j+3] += y[j+3]; }
    for( ; j < n ; ++j){ x[j] += y[j]; }
}
void exact(double* x, const double* y, const int l){
    for(int k = -l ; k < l ; k += 2){ x[k+l] += y[k+l]; x[k+l+1] += y[k+l+1]; }
}
