// positive control for C15.14: a periodic wrap by `(p + limit) % limit` with limit = 1 << level in an ordering that accepts every dimension
// (reported: at the deepest 1-D level the sum is 2^63); the comparison form below it is silent
struct WrapFixture {
    long wrapBySum(long p, const long level) const { const long limit = (1L << level); p = (p + limit) % limit; return p; }
    long wrapByTest(long p, const long level) const { const long limit = (1L << level); if (p < 0) { p += limit; } else if (limit <= p) { p -= limit; } return p; }
};
