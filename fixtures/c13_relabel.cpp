// positive control for C13.6: a particles container whose non-constructor method rewrites the particle index stored at each slot
// without touching the results block (Relabel::updateParticles: reported), and one that rewrites both (Both::updateAll: silent)
#include <cstddef>
template <int K> struct Viewer { long* p; long& getItem(long i) { return p[i]; } long& getItem(long i, long v) { return p[i + v]; } };
struct Blocks { long* mem; template <int K> Viewer<K> getViewerForBlock() { return Viewer<K>{mem}; } template <int K> Viewer<K> getViewerForBlockConst() const { return Viewer<K>{mem}; } };
class TbfParticlesContainer {
    Blocks objectData;
    Blocks objectRhs;
public:
    TbfParticlesContainer(long* a, long* b, const long n) : objectData{a}, objectRhs{b} {
        auto particlesIndexViewer = objectData.template getViewerForBlock<2>();
        for(long i = 0 ; i < n ; ++i){ particlesIndexViewer.getItem(i) = i; }
    }
    const long* getParticleIndexes(const long inIdxLeaf) const { return &objectData.template getViewerForBlockConst<2>().getItem(inIdxLeaf); }
    void updateParticles(const long* inIdx, const long n){
        auto particlesIndexViewer = objectData.template getViewerForBlock<2>();
        for(long i = 0 ; i < n ; ++i){ particlesIndexViewer.getItem(i) = inIdx[i]; }
    }
    void updateAll(const long* inIdx, const long* inRhs, const long n){
        auto particlesIndexViewer = objectData.template getViewerForBlock<2>();
        auto particlesRhsViewer = objectRhs.template getViewerForBlock<0>();
        for(long i = 0 ; i < n ; ++i){ particlesIndexViewer.getItem(i) = inIdx[i]; particlesRhsViewer.getItem(i, 0) = inRhs[inIdx[i]]; }
    }
};
// tree side: rebuildBad relabels in one branch and scatters the results only in the other (reported); rebuildGood scatters after both (silent)
using RhsPtrs = long**;
struct Tree {
    TbfParticlesContainer group;
    template <class F> void applyToAllLeaves(F&& f);
    void rebuildBad(const long* idx, const long* rhs, const long n, const bool same){
        if(same){ group.updateParticles(idx, n); }
        else{ applyToAllLeaves([&rhs, n](const long* particleIndexes, RhsPtrs particleRhsPtr){ for(long p = 0 ; p < n ; ++p){ particleRhsPtr[0][p] = rhs[particleIndexes[p]]; } }); }
    }
    void rebuildGood(const long* idx, const long* rhs, const long n, const bool same){
        if(same){ group.updateParticles(idx, n); }
        applyToAllLeaves([&rhs, n](const long* particleIndexes, RhsPtrs particleRhsPtr){ for(long p = 0 ; p < n ; ++p){ particleRhsPtr[0][p] = rhs[particleIndexes[p]]; } });
    }
};
