// positive control for C14.4: the first row is placed at the next multiple of 64 of the ADDRESS (reported); the offset version is silent
#include <cstdint>
struct Rows {
    unsigned char* base;
    long stride;
    unsigned char* firstRowAligned() const { const std::uintptr_t a = reinterpret_cast<std::uintptr_t>(base); return base + ((64 - (a % 64)) % 64); }
    unsigned char* row(long r) const { return base + r * stride; }
};
